from h import *
async def logged_on():
    c=mk(); p=Peer(c)
    await c.send_msg(FIXMessage(FMsg.LOGON,{98:0,108:30}))
    await feed(c,p.frame(FMsg.LOGON,{98:0,108:30},seq=1))
    return c,p
def jout(c):
    rows=c._journaler.get_all_msgs(direction=MessageDirection.OUTBOUND)
    res=[]
    for seq,raw,d,s in rows:
        m,_,_=c._codec.decode(raw); res.append((seq,str(m.msg_type),m.get(43,'-'), m.get(11,m.get(36,''))))
    return sorted(res)
async def main():
    c,p=await logged_on()
    for k in 'abc': await c.send_msg(FIXMessage('D',{11:k}))
    await c.send_msg(FIXMessage(FMsg.HEARTBEAT))
    await c.send_msg(FIXMessage('D',{11:'d'}))
    print('before',jout(c),c._session.next_num_out)
    c._socket_writer.out.clear()
    await feed(c,p.frame(FMsg.RESENDREQUEST,{7:2,16:0},seq=2))
    print('reply1',outs(c)); print('after1',jout(c),c._session.next_num_out,c.connection_state.name)
    c._socket_writer.out.clear()
    await feed(c,p.frame(FMsg.RESENDREQUEST,{7:2,16:0},seq=3))
    print('reply2',outs(c)); print('after2',jout(c),c._session.next_num_out,c.connection_state.name, c._session.next_num_in)
    # bounded
    c,p=await logged_on()
    for k in 'abcd': await c.send_msg(FIXMessage('D',{11:k}))
    c._socket_writer.out.clear()
    await feed(c,p.frame(FMsg.RESENDREQUEST,{7:2,16:3},seq=2))
    print('bounded reply',outs(c)); print('after',jout(c),c._session.next_num_out,c.connection_state.name)
    # beyond
    c,p=await logged_on()
    for k in 'ab': await c.send_msg(FIXMessage('D',{11:k}))
    c._socket_writer.out.clear()
    await feed(c,p.frame(FMsg.RESENDREQUEST,{7:9,16:0},seq=2))
    print('beyond reply',outs(c)); print('after',jout(c),c._session.next_num_out,c.connection_state.name,c._session.next_num_in)
    # zero / negative
    for b,e in [(0,0),(-1,0),(2,1)]:
        c,p=await logged_on()
        for k in 'ab': await c.send_msg(FIXMessage('D',{11:k}))
        c._socket_writer.out.clear()
        await feed(c,p.frame(FMsg.RESENDREQUEST,{7:b,16:e},seq=2))
        print((b,e),'reply',outs(c)); print('after',jout(c),c._session.next_num_out,c.connection_state.name,c._session.next_num_in)
asyncio.run(main())
