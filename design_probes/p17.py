"""C10 P6: single-byte insertions/deletions/substitutions of a valid frame that decode() still returns as a message."""
from h import *
codec=Codec(FIXProtocol44())
s=FIXSession(1,'A','B'); s.next_num_out=3
f=codec.encode(FIXMessage('D',{11:'abc',58:'hello'}),s).encode()
acc=[]
for pos in range(len(f)+1):
    for b in range(256):
        m=f[:pos]+bytes([b])+f[pos:]
        try: d,n,r=codec.decode(m)
        except Exception as e: continue
        if d is not None and r!=f: acc.append(('ins',pos,b,n,len(m)))
for pos in range(len(f)):
    m=f[:pos]+f[pos+1:]
    try: d,n,r=codec.decode(m)
    except Exception: continue
    if d is not None and r!=f: acc.append(('del',pos,f[pos],n,len(m)))
    for b in range(256):
        if b==f[pos]: continue
        m=f[:pos]+bytes([b])+f[pos+1:]
        try: d,n,r=codec.decode(m)
        except Exception: continue
        if d is not None and r!=f: acc.append(('sub',pos,b,n,len(m)))
print('frame length',len(f),'accepted single-byte corruptions:',len(acc)); print(acc[:12]); print(f)
import collections
print(collections.Counter((k,b) for k,p,b,n,l in acc))
