from h import *
from asyncfix.errors import *
import pickle
async def main():
    # C05: refused sends consume no number?
    c=mk(); p=Peer(c)
    for m in [FIXMessage('D',{11:'x'}), FIXMessage(FMsg.HEARTBEAT), FIXMessage(FMsg.TESTREQUEST,{112:1})]:
        try: await c.send_msg(m); print('sent?!')
        except Exception as e: print(type(e).__name__, c._session.next_num_out, c.connection_state.name)
    await c.send_msg(FIXMessage(FMsg.LOGON,{98:0,108:30}))
    try: await c.send_msg(FIXMessage('D',{11:'x'}))
    except Exception as e: print(type(e).__name__, c._session.next_num_out)
    await feed(c,p.frame(FMsg.LOGON,{98:0,108:30},seq=1))
    try: await c.send_msg(FIXMessage(FMsg.TESTREQUEST,{112:1}))
    except Exception as e: print('TR direct',type(e).__name__, c._session.next_num_out)
    await c.send_test_req()
    await c.send_msg(FIXMessage(FMsg.TESTREQUEST,{112:1})); print('second TR via send_msg allowed', outs(c)[-2:])
    try: await c.send_msg(FIXMessage(FMsg.SEQUENCERESET,{36:5}))
    except Exception as e: print('seqreset no 34',type(e).__name__, c._session.next_num_out)
    # acceptor: too low seq at first message -> logout sent in NETWORK_CONN_ESTABLISHED
    c=mk(); p=Peer(c); c._session.next_num_in=5
    await feed(c,p.frame(FMsg.LOGON,{98:0,108:30},seq=1))
    print('acc low logon', c.connection_state.name, c.connection_role, outs(c), c.ev)
    # wrong compid
    c=mk(); p=Peer(c); p.sess.sender_comp_id='ZZZ'
    await feed(c,p.frame(FMsg.LOGON,{98:0,108:30},seq=1))
    print('wrong compid', c.connection_state.name, outs(c), c._session.next_num_out)
asyncio.run(main())
# C18
m=FIXMessage('D')
m.set(1,'a'); 
for t in ['01',' 1','1 ','+1','1_0','1.0', 1.0, True]:
    try: m.set(t,'v'); print('set',repr(t),'ok ->',list(m.tags))
    except Exception as e: print('set',repr(t),type(e).__name__)
m=FIXMessage('D',{1:'a'})
try: m.set(1,'b')
except Exception as e: print(type(e).__name__, m.tags)
try: del m[99]
except Exception as e: print('del missing',type(e).__name__)
try: m.add_group(1,{2:'x'})
except Exception as e: print('add_group on plain',type(e).__name__)
m.add_group(78,{79:'a'}); m.add_group(78,{79:'b'},0); print(m)
try: print(m.get_group_by_index(78,-1), m.get_group_by_index(78,5))
except Exception as e: print(type(e).__name__)
print(m=={1:'a'}, FIXMessage('D',{1:'a'})=={1:'a',8:'FIX.4.4'}, FIXMessage('D',{1:'a',8:'x'})=={1:'a'})
print(FIXMessage('D',{1:'a|2=b'})==FIXMessage('D',{1:'a',2:'b'}))
print(pickle.loads(pickle.dumps(m))==m, FIXMessage('D',{1:1.0})[1], FIXMessage('D',{1:FMsg.LOGON})[1])
try: m.set(5, ValueError); print('class value', m.tags['5'])
except Exception as e: print(type(e).__name__)
print(FIXMessage('D',{1:'a'})==FIXMessage('8',{1:'a'}))
