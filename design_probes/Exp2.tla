---- MODULE Exp2 ----
EXTENDS Integers, Sequences, TLC, Json, IOUtils, FiniteSets
Traces == JsonDeserialize(IOEnv.TRACE_FILE)
StepOK(pre, ev, post) ==
   /\ (ev.seq = pre.nin => post.nin = pre.nin + 1)
   /\ (ev.seq # pre.nin => post.nin = pre.nin)
   /\ (\A i \in 1..Len(post.deliv) : post.deliv[i] = pre.nin)
   /\ (ev.seq > pre.nin /\ pre.cs = "ACTIVE" => Len(post.wrote) = 1 /\ post.wrote[1].b = pre.nin)
   /\ Len(post.jo) = Len(pre.jo) + Len(post.wrote)
Bad == { <<Traces[t].tid, i>> : t \in 1..Len(Traces), i \in 1..10 } \* placeholder
BadSteps == UNION { { <<Traces[t].tid, i>> : i \in { k \in 1..Len(Traces[t].steps) : ~StepOK(Traces[t].steps[k].pre, Traces[t].steps[k].ev, Traces[t].steps[k].post) } } : t \in 1..Len(Traces) }
ASSUME PrintT(<<"RESULT", Len(Traces), Cardinality(BadSteps), BadSteps>>)
VARIABLE x
Init == x = 0
Next == x' = x
====
