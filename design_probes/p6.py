from h import *
async def main():
    # C11a: initiator LOGON_INITIAL_SENT receives app msg
    c=mk(); p=Peer(c)
    await c.send_msg(FIXMessage(FMsg.LOGON,{98:0,108:30}))
    print(c.connection_state.name, c.connection_role)
    await feed(c,p.frame('D',{11:'x'},seq=1))
    print('app',c.app,c.connection_state.name,c._session.next_num_in)
    # C11b: ResendRequest in LOGON_INITIAL_SENT
    c=mk(); p=Peer(c)
    await c.send_msg(FIXMessage(FMsg.LOGON,{98:0,108:30}))
    await feed(c,p.frame(FMsg.RESENDREQUEST,{7:1,16:0},seq=1))
    print('after RR',c.connection_state.name, outs(c), c.ev)
    # acceptor first msg not logon
    c=mk(); p=Peer(c)
    await feed(c,p.frame('D',{11:'x'},seq=1))
    print('acc first nonlogon',c.connection_state.name,c.app,c.ev,outs(c))
    # after disconnect, more input
    await feed(c,p.frame('D',{11:'x'},seq=1))
    print('after disc more input',c.connection_state.name,c.app,c.ev)
    # too low seq in ACTIVE
    c=mk(); p=Peer(c)
    await c.send_msg(FIXMessage(FMsg.LOGON,{98:0,108:30}))
    await feed(c,p.frame(FMsg.LOGON,{98:0,108:30},seq=1))
    await feed(c,p.frame('D',{11:'x'},seq=1))
    print('toolow',c.connection_state.name,c.app,c.ev[-3:],outs(c)[-1])
    # C09: gap fill spanning several numbers: stored inbound counter
    c=mk(); p=Peer(c)
    await c.send_msg(FIXMessage(FMsg.LOGON,{98:0,108:30}))
    await feed(c,p.frame(FMsg.LOGON,{98:0,108:30},seq=1))
    await feed(c,p.frame(FMsg.SEQUENCERESET,{123:'Y',36:7},seq=2))
    print('live',c._session, 'stored', c._journaler.create_or_load('B','A'), c._journaler.conn.in_transaction)
asyncio.run(main())
