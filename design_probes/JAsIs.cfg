SPECIFICATION Spec
CONSTANTS
  KF_NoCommitInSetSeqNum = TRUE
  MaxOps = 3
  Seqs = {1, 2, 3}
INVARIANT J1
INVARIANT J3
INVARIANT J1b
CHECK_DEADLOCK FALSE
