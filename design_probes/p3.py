from h import *
codec=Codec(FIXProtocol44())
p_s=FIXSession(1,'A','B'); p_s.next_num_out=1
f1=codec.encode(FIXMessage('D',{11:'a'}),p_s).encode()
f2=codec.encode(FIXMessage('D',{11:'b'}),p_s).encode()
stream=f1+f2
def run(chunks):
    buf=b''; got=[]
    for ch in chunks:
        buf+=ch
        while True:
            d,n,r=codec.decode(buf)
            if n>0: buf=buf[n:]
            if d is None: break
            got.append(d[11])
    return got,len(buf)
bad=[]
for i in range(1,len(stream)):
    g,l=run([stream[:i],stream[i:]])
    if g!=['a','b']: bad.append((i,g,l))
print(len(f1),len(stream)); print(bad)
# 1-byte reads
print(run([bytes([b]) for b in stream]))
# C10 malformed
for raw in [b'8=FIX.4.4\x019=abc\x0135=0\x0110=000\x01', b'8=FIX.4.4\x019=5\x0135=0\x0110=xyz\x01', b'8=FIX.4.4\x019=5\x01ab=0\x0110=000\x01', b'8=FIX.4.4\x019=-5\x0135=0\x0110=000\x01',b'8=FIX.4.4\x019=5\x0135=0\x01', b'8=FIX.4.4\x01', b'8=FIX.\x01\x01\x01']:
    try: print(raw, codec.decode(raw))
    except Exception as e: print(raw,'EXC',repr(e))
