"""Prototype: virtual-time asyncio loop (design probe, not framework)."""
import asyncio, heapq, time as _time
class VLoop(asyncio.SelectorEventLoop):
    def __init__(self, start=1_000_000.0):
        super().__init__(); self._vt=start
    def time(self): return self._vt
    def run_idle(self, budget=100000):
        """run ready callbacks (no timers) until nothing is ready"""
        n=0
        asyncio.events._set_running_loop(self)
        try:
            while self._ready:
                self._run_once_ready(); n+=1
                if n>budget: raise RuntimeError('livelock')
        finally:
            asyncio.events._set_running_loop(None)
    def _run_once_ready(self):
        # run exactly the callbacks currently ready, do not block, do not advance time
        ntodo=len(self._ready)
        for _ in range(ntodo):
            h=self._ready.popleft()
            if not h._cancelled: h._run()
    def advance(self, dt, budget=100000):
        """advance virtual clock by dt, firing timers in order"""
        end=self._vt+dt
        self.run_idle(budget)
        while self._scheduled and self._scheduled[0]._when<=end:
            h=heapq.heappop(self._scheduled); h._scheduled=False
            if h._cancelled: continue
            self._vt=max(self._vt,h._when)
            self._ready.append(h); self.run_idle(budget)
        self._vt=end
def run(loop, coro, budget=100000):
    """drive a coroutine to completion without ever blocking in select()"""
    t=loop.create_task(coro); loop.run_idle(budget)
    if not t.done(): raise RuntimeError('coroutine blocked on a timer or gate')
    return t.result()
def install(loop):
    asyncio.set_event_loop(loop)
    _time.time=loop.time     # library reads time.time()
