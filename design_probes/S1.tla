---- MODULE S1 ----
(* Design probe: inbound handler of connection.py (ACTIVE / RESENDREQ_AWAITING), as-is with KF flags. *)
EXTENDS Integers, Sequences, TLC, Json
CONSTANTS KF_LowSeqWhileAwaiting, KF_GapFillAbove, KF_BackwardReset, MaxN, Depth, DumpEdges
VARIABLES ep, ev, d
vars == <<ep, ev, d>>

Kinds == {"APP", "HB", "GF", "RESET"}
Rel == {-2, -1, 0, 1, 3}
NewRel == {-1, 0, 1, 3}
Frames(nin) == [kind: {"APP","HB"}, seq: {nin + r : r \in Rel} \cap (1..MaxN), pd: BOOLEAN, newseq: {0}]
          \cup { [kind |-> k, seq |-> s, pd |-> p, newseq |-> s + nr] :
                   k \in {"GF","RESET"}, s \in {nin + r : r \in Rel} \cap (1..MaxN), p \in BOOLEAN, nr \in NewRel }

Init0 == [cs |-> "ACTIVE", nin |-> 2, nout |-> 2, maxr |-> 0, wrote |-> <<>>, deliv |-> <<>>, disc |-> FALSE]

IsSeqReset(f) == f.kind \in {"GF", "RESET"}

TooLow(e, f) == /\ f.seq < e.nin
                /\ ~IsSeqReset(f)
                /\ ~(KF_LowSeqWhileAwaiting /\ e.cs = "RESENDREQ_AWAITING")

\* _process_seqreset: as-is unconditional
SeqResetHonoured(e, f) ==
    IF f.kind = "GF" THEN (KF_GapFillAbove \/ f.seq = e.nin) /\ (KF_BackwardReset \/ f.newseq > e.nin) /\ f.newseq >= 1
    ELSE (KF_BackwardReset \/ f.newseq > e.nin) /\ f.newseq >= 1

AfterSeqReset(e, f) == IF IsSeqReset(f) /\ SeqResetHonoured(e, f) THEN [e EXCEPT !.nin = f.newseq] ELSE e

\* _check_seqnum_gaps
GapStep(e, f) ==
    IF f.seq > e.nin
    THEN IF e.cs # "RESENDREQ_AWAITING"
         THEN <<FALSE, [e EXCEPT !.cs = "RESENDREQ_AWAITING", !.maxr = f.seq, !.nout = e.nout + 1,
                                  !.wrote = Append(e.wrote, [kind |-> "RR", seq |-> e.nout, b |-> e.nin, e |-> 0])]>>
         ELSE <<FALSE, e>>
    ELSE IF KF_LowSeqWhileAwaiting THEN <<TRUE, e>> ELSE <<f.seq = e.nin \/ IsSeqReset(f), e>>

Finalize(e, f) ==
    LET ok == IsSeqReset(f) \/ f.seq = e.nin
        n1 == IF IsSeqReset(f) THEN (IF SeqResetHonoured(e, f) \/ TRUE THEN e.nin ELSE e.nin) ELSE f.seq + 1
        num == IF IsSeqReset(f) THEN e.nin - 1 ELSE f.seq
        e1 == IF ok THEN [e EXCEPT !.nin = n1] ELSE e
    IN IF ok /\ e1.cs = "RESENDREQ_AWAITING" /\ num >= e1.maxr
       THEN [e1 EXCEPT !.cs = "ACTIVE", !.maxr = 0] ELSE e1

Process(e0, f) ==
    LET e == [e0 EXCEPT !.wrote = <<>>, !.deliv = <<>>] IN
    IF TooLow(e, f) THEN [e EXCEPT !.disc = TRUE, !.cs = "DISC", !.maxr = 0, !.nout = e.nout + 1,
                                   !.wrote = <<[kind |-> "LOGOUT", seq |-> e.nout, b |-> 0, e |-> 0]>>]
    ELSE LET e1 == AfterSeqReset(e, f)
             g  == GapStep(e1, f)
             valid == g[1]
             e2 == g[2]
             e3 == IF f.kind = "APP" /\ valid THEN [e2 EXCEPT !.deliv = <<f.seq>>] ELSE e2
         IN IF valid THEN Finalize(e3, f) ELSE e3

Init == ep = Init0 /\ ev = [kind |-> "init", seq |-> 0, pd |-> FALSE, newseq |-> 0] /\ d = 0
Next == /\ ~ep.disc /\ d < Depth
        /\ \E f \in Frames(ep.nin) : ev' = f /\ ep' = Process(ep, f) /\ d' = d + 1
Spec == Init /\ [][Next]_vars
View == <<ep.cs, ep.nin, ep.nout, ep.maxr, ep.disc, d>>
Bound == ep.nin <= MaxN /\ ep.nout <= MaxN

\* ---- property clauses C04 (pre, ev, post) ----
RRs(w) == SelectSeq(w, LAMBDA x : x.kind = "RR")
D1(pre, f, post) == post.deliv # <<>> => f.kind = "APP" /\ f.seq = pre.nin /\ post.deliv = <<f.seq>>
D2(pre, f, post) == \/ post.nin = pre.nin
                    \/ post.nin = pre.nin + 1 /\ f.seq = pre.nin
                    \/ IsSeqReset(f) /\ post.nin = f.newseq /\ f.newseq > pre.nin /\ (f.kind = "GF" => f.seq = pre.nin)
GapPending(pre) == pre.cs = "RESENDREQ_AWAITING"
D3(pre, f, post) == LET rr == RRs(post.wrote) IN
                    IF post.disc THEN TRUE
                    ELSE IF f.seq > pre.nin /\ f.kind # "RESET"
                         THEN IF GapPending(pre) THEN rr = <<>> ELSE Len(rr) = 1 /\ rr[1].b = pre.nin
                         ELSE f.kind = "RESET" \/ rr = <<>>
D4(pre, f, post) == f.seq > pre.nin /\ f.kind # "RESET" => post.nin = pre.nin
P_D1 == [][D1(ep, ev', ep')]_vars
P_D2 == [][D2(ep, ev', ep')]_vars
P_D3 == [][D3(ep, ev', ep')]_vars
P_D4 == [][D4(ep, ev', ep')]_vars
Dump == DumpEdges => PrintT(<<"EDGE", ToJson([src |-> ep, ev |-> ev', dst |-> ep'])>>)
====
