SPECIFICATION Spec
CONSTRAINT Bound
ACTION_CONSTRAINT DumpEdge
CHECK_DEADLOCK FALSE
