from h import *
import vloop, time
def scenario(H, frac, answer_delay=None, wrong=False):
    loop=vloop.VLoop(1_000_000.0+frac); vloop.install(loop)
    c=mk(); c._heartbeat_period=H
    p=Peer(c)
    async def setup():
        await c.send_msg(FIXMessage(FMsg.LOGON,{98:0,108:H}))
        await feed(c,p.frame(FMsg.LOGON,{98:0,108:H},seq=1))
    vloop.run(loop,setup())
    t0=loop.time()
    c._message_last_time=t0
    c._socket_reader=object()
    task=loop.create_task(c.heartbeat_timer_task())
    log=[]; seen=0; seq=2; pending=None
    for tick in range(0, 4*H+8):
        # events strictly between ticks: at t0+tick+0.5
        loop.advance(0.5)
        if pending is not None and tick>=pending[0]:
            trid=pending[1]; pending=None
            vloop.run(loop,feed(c,p.frame(FMsg.HEARTBEAT,{112: (trid+1 if wrong else trid)},seq=seq))); seq+=1
            log.append((round(loop.time()-t0,2),'peerHB'))
        loop.advance(0.5)
        new=c.w.out[seen:]; seen=len(c.w.out)
        for b in new:
            m,_,_=c._codec.decode(b); log.append((round(loop.time()-t0,2),str(m.msg_type),m.get(112,None)))
            if str(m.msg_type)=='1' and answer_delay is not None: pending=(tick+answer_delay, int(m[112]))
        if c.connection_state<=ConnectionState.DISCONNECTED_BROKEN_CONN:
            log.append((round(loop.time()-t0,2),'DISC')); break
    task.cancel(); loop.run_idle(); loop.close()
    return log
for H in (1,2,3,5):
    for frac in (0.0,0.3):
        print('H',H,'frac',frac,'silent:',[(t,k) for t,k,*r in scenario(H,frac)])
print('answer delay 1, H=3:',scenario(3,0.3,answer_delay=1)[:8])
print('answer delay 2H=6, H=3:',scenario(3,0.3,answer_delay=6)[:8])
print('wrong id:',scenario(3,0.3,answer_delay=1,wrong=True)[:6])
