INIT Init
NEXT Next
