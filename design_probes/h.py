import asyncio, logging, sys
from asyncfix import FIXMessage, FMsg, FTag, Journaler
from asyncfix.connection import AsyncFIXConnection, ConnectionState, ConnectionRole
from asyncfix.protocol import FIXProtocol44
from asyncfix.codec import Codec
from asyncfix.session import FIXSession
from asyncfix.message import MessageDirection
logging.disable(logging.CRITICAL)

class W:
    def __init__(s): s.out=[]; s.closed=False
    def write(s,b): s.out.append(b)
    async def drain(s): pass
    def close(s): s.closed=True
    async def wait_closed(s): pass

class Conn(AsyncFIXConnection):
    def __init__(s,*a,**k):
        super().__init__(*a,**k); s.app=[]; s.ev=[]
    async def on_message(s,m): s.app.append((m.msg_type, m[FTag.MsgSeqNum])); s.ev.append(('msg',m[34]))
    async def on_connect(s): s.ev.append('connect')
    async def on_disconnect(s): s.ev.append('disconnect')
    async def on_logon(s,h): s.ev.append(('logon',h))
    async def on_logout(s,m): s.ev.append('logout')
    async def on_state_change(s,st): s.ev.append(('state',st.name))

def mk(sender='A',target='B',j=None,state=ConnectionState.NETWORK_CONN_ESTABLISHED):
    j=j or Journaler()
    c=Conn(FIXProtocol44(),sender,target,j,'h',1)
    c._socket_writer=W(); c._socket_reader=object(); c.w=c._socket_writer
    c._connection_state=state
    return c

class Peer:
    """raw frame factory for the counterparty of conn c"""
    def __init__(s,c):
        s.codec=Codec(FIXProtocol44()); s.sess=FIXSession(0,c._session.sender_comp_id,c._session.target_comp_id)
        s.sess.next_num_out=1
    def frame(s,mtype,tags=None,seq=None,possdup=False):
        m=FIXMessage(mtype,tags or {})
        if possdup: m[FTag.PossDupFlag]='Y'
        if seq is not None:
            m[FTag.MsgSeqNum]=seq
            raw=s.codec.encode(m,s.sess,raw_seq_num=True)
        else:
            raw=s.codec.encode(m,s.sess)
        return raw.encode()
async def feed(c,raw):
    m,n,r=c._codec.decode(raw)
    await c._process_message(m,r)
def outs(c):
    res=[]
    for b in c.w.out:
        m,_,_=c._codec.decode(b)
        res.append((str(m.msg_type), m[34], {k:v for k,v in m.tags.items() if k in('7','16','36','123','43','112','58')}))
    return res
