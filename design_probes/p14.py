from h import *
import vloop
from asyncfix.errors import *
class Gate:
    def __init__(s,loop): s.loop=loop; s.waiting=[]   # (name, future)
    async def wait(s,name):
        f=s.loop.create_future(); s.waiting.append((name,f)); await f
    def release(s,name):
        for i,(n,f) in enumerate(s.waiting):
            if n==name: s.waiting.pop(i); f.set_result(None); return True
        return False
    def names(s): return [n for n,_ in s.waiting]
def run_schedule(schedule):
    loop=vloop.VLoop(); vloop.install(loop); g=Gate(loop)
    c=mk(); p=Peer(c)
    cur=[None]
    class GW(W):
        async def drain(s): await g.wait('drain:'+cur[0])
    async def should_replay(m): await g.wait('replay:reader'); return True
    async def setup():
        await c.send_msg(FIXMessage(FMsg.LOGON,{98:0,108:30}))
        await feed(c,p.frame(FMsg.LOGON,{98:0,108:30},seq=1))
        for k in 'ab': await c.send_msg(FIXMessage('D',{11:k}))
    vloop.run(loop,setup())
    c._socket_writer=GW(); c.w=c._socket_writer; c.should_replay=should_replay
    res={}
    async def tagged(name,coro):
        # task-local name for drain gate
        try:
            await coro; res[name]='ok'
        except Exception as e: res[name]=type(e).__name__
    # wrap send_msg to know which task drains
    orig=c.send_msg
    import asyncio
    async def send_msg(m):
        t=asyncio.current_task().get_name(); cur[0]=t
        # note: cur is set at call time; drain gate name captured inside drain via cur -> set again right before write
        return await orig(m)
    c.send_msg=send_msg
    tasks={'reader':loop.create_task(tagged('reader',feed(c,p.frame(FMsg.RESENDREQUEST,{7:2,16:0},seq=2))),name='reader'),
           'app':loop.create_task(tagged('app',c.send_msg(FIXMessage('D',{11:'NEW'}))),name='app')}
    loop.run_idle()
    trace=[]
    for step in schedule:
        trace.append((step,g.names()))
        if not g.release(step): trace.append(('MISSING',step)); break
        loop.run_idle()
    # release everything left FIFO
    while g.waiting:
        n=g.waiting[0][0]; g.release(n); loop.run_idle()
    wire=[(str(m.msg_type),m[34],m.get(43,'-'),m.get(11,m.get(36,''))) for m in [c._codec.decode(b)[0] for b in c.w.out]]
    stored=c._journaler.create_or_load('B','A').next_num_out
    loop.close()
    return res,wire,c._session.next_num_out,stored,trace
for sched in [['drain:app'], ['replay:reader','drain:reader','drain:app']]:
    res,wire,nout,stored,trace=run_schedule(sched)
    print('schedule',sched); print('  gates seen',trace); print('  results',res); print('  wire',wire); print('  nout',nout,'stored',stored)
