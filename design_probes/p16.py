"""C07: stale partial frame in the receive buffer across a reconnect; C20(b): FIXTester acceptor vs real acceptor."""
from h import *
import vloop
from asyncfix import FIXTester
def run(coro):
    loop=vloop.VLoop(); vloop.install(loop)
    try: return vloop.run(loop,coro)
    finally: loop.close()
def stale_main():
    loop=vloop.VLoop(); vloop.install(loop)
    c=mk('A','I'); p=Peer(c)
    r=asyncio.StreamReader(loop=loop); c._socket_reader=r
    t=loop.create_task(c.socket_read_task()); loop.run_idle()
    r.feed_data(p.frame('D',{11:'lost'},seq=5)[:40]); loop.run_idle()
    print('buffer before break',len(c._msg_buffer))
    r.feed_eof(); loop.run_idle()
    print('after EOF state',c.connection_state.name,'buffer',len(c._msg_buffer))
    r2=asyncio.StreamReader(loop=loop); c._socket_reader=r2; c._socket_writer=W(); c.w=c._socket_writer
    c._connection_state=ConnectionState.NETWORK_CONN_ESTABLISHED
    r2.feed_data(p.frame(FMsg.LOGON,{98:0,108:30},seq=1)); loop.advance(1.5)
    print('after Logon: state',c.connection_state.name,'events',c.ev[-3:],'wrote',outs(c),'buffer',len(c._msg_buffer))
    r2.feed_data(p.frame(FMsg.HEARTBEAT,{},seq=2)); loop.advance(1.5)
    print('after next frame: state',c.connection_state.name,'events',c.ev[-3:],'wrote',outs(c),'buffer',len(c._msg_buffer))
    t.cancel(); loop.run_idle(); loop.close()

stale_main()

def norm(frames,codec):
    out=[]
    for b in frames:
        m,_,_=codec.decode(b); out.append((str(m.msg_type),m[34],{k:v for k,v in m.tags.items() if k not in('8','9','10','52','34','35','49','56')}))
    return out
async def via_tester():
    c=mk('I','A'); ft=FIXTester(connection=c)
    sent=[]
    orig=ft._conn_socket_write_initiator
    def wr(data): sent.append(data); orig(data)
    c._socket_writer.write.side_effect=wr
    await c.send_msg(ft.msg_logon()); await ft.process_msg_acceptor()
    await c.send_msg(FIXMessage('D',{11:'o1'})); await ft.process_msg_acceptor()
    await ft.reply(FIXMessage('8',{11:'o1',37:'x'}))
    await ft.reply(ft.msg_test_request(777))
    await ft.process_msg_acceptor()
    await c.send_msg(FIXMessage('D',{11:'o2'})); await ft.process_msg_acceptor()
    return norm(sent,c._codec),[e for e in c.ev if e[0]=='state' or e=='disconnect' or e[0]=='logon'],(c._session.next_num_in,c._session.next_num_out),c.app
async def via_real():
    I=mk('I','A'); A=mk('A','I')
    qIA=[];qAI=[]
    class LW(W):
        def __init__(s,q): super().__init__(); s.q=q
        def write(s,b): s.out.append(b); s.q.append(b)
    I._socket_writer=LW(qIA); I.w=I._socket_writer; A._socket_writer=LW(qAI); A.w=A._socket_writer
    async def settle():
        while qIA or qAI:
            if qIA: await feed(A,qIA.pop(0))
            if qAI: await feed(I,qAI.pop(0))
    await I.send_msg(FIXMessage(FMsg.LOGON,{98:0,108:30})); await settle()
    await I.send_msg(FIXMessage('D',{11:'o1'})); await settle()
    await A.send_msg(FIXMessage('8',{11:'o1',37:'x'})); await settle()
    A._test_req_id=777; await A.send_msg(FIXMessage(FMsg.TESTREQUEST,{112:777})); await settle()
    await I.send_msg(FIXMessage('D',{11:'o2'})); await settle()
    return norm(I.w.out,I._codec),[e for e in I.ev if e[0]=='state' or e=='disconnect' or e[0]=='logon'],(I._session.next_num_in,I._session.next_num_out),I.app
a=run(via_tester()); b=run(via_real())
print('tester:',a); print('real  :',b); print('EQUAL' if a==b else 'DIFFERENT')
