---- MODULE Exp1 ----
EXTENDS Integers, Sequences, TLC, Json, TLCExt
VARIABLES nin, cs, ev
vars == <<nin, cs, ev>>
Frames == [t: {"APP","HB","GF"}, rel: {-1,0,1,3}]
Init == nin = 1 /\ cs = "ACTIVE" /\ ev = [t |-> "init", rel |-> 0]
Step(f) == /\ ev' = f
           /\ IF f.rel = 0 THEN nin' = nin + 1 /\ cs' = "ACTIVE"
              ELSE IF f.rel > 0 THEN nin' = nin /\ cs' = "AWAIT"
              ELSE nin' = nin /\ cs' = "DISC"
Next == cs # "DISC" /\ \E f \in Frames : Step(f)
Spec == Init /\ [][Next]_vars
Bound == nin <= 4
DumpEdge == PrintT(<<"EDGE", ToJson([src |-> [nin |-> nin, cs |-> cs], ev |-> ev', dst |-> [nin |-> nin', cs |-> cs']])>>)
====
