from h import *
async def main():
    # C04a: low seq while RESENDREQ_AWAITING delivered again?
    c=mk(); p=Peer(c)
    await c.send_msg(FIXMessage(FMsg.LOGON,{98:0,108:30}))
    await feed(c,p.frame(FMsg.LOGON,{98:0,108:30},seq=1))
    print('state',c.connection_state.name, c._session.next_num_in)
    await feed(c,p.frame('D',{11:'a'},seq=2))
    await feed(c,p.frame('D',{11:'b'},seq=5))   # gap
    print('state',c.connection_state.name, c._session.next_num_in, outs(c))
    await feed(c,p.frame('D',{11:'a'},seq=2))   # low dup while awaiting
    print('app',c.app, 'state',c.connection_state.name, c._session.next_num_in)
    # C04b: gap fill above expected
    c=mk(); p=Peer(c)
    await c.send_msg(FIXMessage(FMsg.LOGON,{98:0,108:30}))
    await feed(c,p.frame(FMsg.LOGON,{98:0,108:30},seq=1))
    await feed(c,p.frame(FMsg.SEQUENCERESET,{123:'Y',36:10},seq=5))
    print('gapfill above: state',c.connection_state.name, c._session.next_num_in, outs(c))
asyncio.run(main())
