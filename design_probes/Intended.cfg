SPECIFICATION Spec
CONSTANTS
  KF_LowSeqWhileAwaiting = FALSE
  KF_GapFillAbove = FALSE
  KF_BackwardReset = FALSE
  MaxN = 9
  Depth = 5
  DumpEdges = FALSE
VIEW View
CONSTRAINT Bound
ACTION_CONSTRAINT Dump
PROPERTY P_D1
PROPERTY P_D2
PROPERTY P_D3
PROPERTY P_D4
CHECK_DEADLOCK FALSE
