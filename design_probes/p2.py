from h import *
from asyncfix.protocol import FIXProtocol44
codec=Codec(FIXProtocol44())
def sess():
    s=FIXSession(1,'T','S'); s.next_num_out=7; s.next_num_in=1; return s
# C01: value containing 8=FIX.
for v in ['abc','x8=FIX.y','10=000','a=b','9=12','8=FIX.4.4']:
    m=FIXMessage('D',{58:v,11:'id'})
    raw=codec.encode(m,sess()).encode()
    try:
        d,n,r=codec.decode(raw)
        print(repr(v),'->', None if d is None else (d.get(58,None),d.get(11,None)), n,len(raw))
    except Exception as e: print(repr(v),'EXC',repr(e))
# groups nested
m=FIXMessage('J',{70:'a'})
m.set_group(FTag.NoAllocs,[{FTag.AllocAccount:'acc1',FTag.NoNestedPartyIDs:[{FTag.NestedPartyID:'p1',FTag.NoNestedPartySubIDs:[{FTag.NestedPartySubID:'s1'},{FTag.NestedPartySubID:'s2'}]},{FTag.NestedPartyID:'p2'}],FTag.AllocText:'t'},{FTag.AllocAccount:'acc2'}])
m[58]='after'
raw=codec.encode(m,sess()).encode(); print(raw.replace(b'\x01',b'|'))
d,n,r=codec.decode(raw); print(d, n==len(raw))
# C02: non-ascii
for v in ['é','€','ÿ']:
    m=FIXMessage('D',{58:v})
    s=codec.encode(m,sess()); b=s.encode('utf-8')
    import re
    bl=int(re.search(r'\x019=(\d+)\x01',s).group(1))
    i=b.index(b'\x0135='); j=b.rindex(b'10=')
    print(repr(v),'BodyLength',bl,'actual bytes',j-(i+1), 'cks', s[-4:-1], sum(b[:j])%256)
    try: print(codec.decode(b)[0])
    except Exception as e: print('EXC',repr(e))
