from asyncfix import FIXMessage, FMsg, FTag, FIXTester
from asyncfix.protocol import FIXNewOrderSingle, FOrdSide, FOrdStatus, FExecType, FIXSchema
from asyncfix.errors import *
CS=FIXNewOrderSingle.change_status
# C16 cancel reject on finished
for st in [FOrdStatus.FILLED, FOrdStatus.CANCELED, FOrdStatus.NEW]:
    for ms in [FOrdStatus.NEW, FOrdStatus.PENDING_NEW, FOrdStatus.FILLED]:
        print(st.name,'cxlrej',ms.name,'->',CS(st,FMsg.ORDERCANCELREJECT,0,ms,raise_on_err=False))
try: print(CS(FOrdStatus.NEW,FMsg.ADVERTISEMENT,0,FOrdStatus.NEW,raise_on_err=False))
except Exception as e: print('unsupported no-raise mode ->',repr(e))
# C17: after cancel reject
o=FIXNewOrderSingle('root','T',FOrdSide.BUY,10.0,5)
ft=FIXTester()
nr=o.new_req(); ft.order_register_single(o)
o.process_execution_report(ft.fix_exec_report_msg(o,o.clord_id,FExecType.PENDING_NEW,FOrdStatus.PENDING_NEW))
o.process_execution_report(ft.fix_exec_report_msg(o,o.clord_id,FExecType.NEW,FOrdStatus.NEW,leaves_qty=5,cum_qty=0))
cx=ft.fix_cxl_request(o)
rej=ft.fix_cxlrep_reject_msg(cx,FOrdStatus.NEW)
print(o.process_cancel_rej_report(rej), repr(o.status), type(o.status), o.clord_id,o.orig_clord_id, o.can_cancel())
try: o.cancel_req()
except BaseException as e: print('cancel_req ->',type(e).__name__,e)
try: print(repr(o))
except BaseException as e: print('repr ->',type(e).__name__,e)
# C20 order id stability
o=FIXNewOrderSingle('root2','T',FOrdSide.BUY,10.0,5); ft.order_register_single(o); o.new_req()
ft.order_register_single(o)
a=ft.fix_exec_report_msg(o,o.clord_id,FExecType.PENDING_NEW,FOrdStatus.PENDING_NEW)
b=ft.fix_exec_report_msg(o,o.clord_id,FExecType.NEW,FOrdStatus.NEW,leaves_qty=5,cum_qty=0)
print('orderids',a[37],b[37])
# C15 missing required group
import os
sch=FIXSchema('/repo/tests/FIX44.xml')
m=FIXMessage(FMsg.MARKETDATAREQUEST,{262:'r',263:'0',264:'1'})
try: print('MDReq w/o required groups ->',sch.validate(m))
except Exception as e: print(type(e).__name__,e)
# C19
f=sch['OrderQty']; 
for v in ['1_0',' 5','5 ','1e3','٣','+5','.5','5.','-0','--1','nan','inf','0x10']:
    try: print(repr(v),f.validate_value(v))
    except Exception as e: print(repr(v),type(e).__name__)
f=sch['SendingTime']
for v in ['20240101-1:2:3','2024011-01:02:03','20240101-01:02:03.1234567','20240101-24:00:00','20240230-00:00:00','20240101-23:59:60']:
    try: print(repr(v),f.validate_value(v))
    except Exception as e: print(repr(v),type(e).__name__)
