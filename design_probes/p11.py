from asyncfix import FIXMessage, FMsg, FTag
from asyncfix.message import FIXContainer
import pickle
def t(f):
    try: return f()
    except Exception as e: return type(e).__name__
m=FIXMessage('D',{1:'a'}); m.add_group(78,{79:'a'}); m.add_group(78,{79:'b'},0)
print(t(lambda: m.get_group_by_index(78,-1)), t(lambda: m.get_group_by_index(78,5)), t(lambda: m.get_group_by_index(1,0)), t(lambda: m.get_group_by_index(99,0)), t(lambda: m.get(78)), t(lambda: m.get_group_by_tag(78,79,'a')), t(lambda: m.get_group_by_tag(78,79,'zz')))
print(t(lambda: FIXMessage('D',{1:'a'})=={1:'a'}), t(lambda: FIXMessage('D',{1:'a'})=={1:'a',8:'FIX.4.4'}), t(lambda: FIXMessage('D',{1:'a',8:'x'})=={1:'a'}), t(lambda: FIXMessage('D',{1:'a',35:'D'})=={'1':'a'}))
print(t(lambda: FIXMessage('D',{1:'a|2=b'})==FIXMessage('D',{1:'a',2:'b'})))
print(t(lambda: pickle.loads(pickle.dumps(m))==m), FIXMessage('D',{1:1.0})[1], FIXMessage('D',{1:FMsg.LOGON})[1], FIXMessage('D',{FTag.Account:5})['1'])
print(t(lambda: m.set(5, ValueError)), m.tags.get('5'), t(lambda: m.set(5,'x')), t(lambda: m.get(5)))
print(t(lambda: FIXMessage('D',{1:'a'})==FIXMessage('8',{1:'a'})), t(lambda: FIXContainer({1:'a'})==FIXMessage('8',{1:'a'})))
print(t(lambda: m.query(1,78)), t(lambda: m.query()), t(lambda: m.set_group(78,[{1:2}])), t(lambda: m.set_group(1,[{1:2}])), t(lambda: m.set(78,'x')), t(lambda: m.set(78,'x',replace=True)), m)
print(t(lambda: m.add_group(80,'notadict')), t(lambda: m.add_group('x',{1:2})), m.tags.keys())
m2=FIXMessage('D'); m2.add_group(78,{79:'a'},5); m2.add_group(78,{79:'b'},-2); print(m2)
print(t(lambda: FIXMessage('D',{1:'a'})==5), 1 in m, '1' in m, FTag.Account in m, 'x' in m, None in m)
