---- MODULE JP ----
(* Design probe: journaler.py as statement lists over a durable DB D and an open transaction U
   (python sqlite3 legacy mode: implicit BEGIN before DML, explicit commit). One session, two directions. *)
EXTENDS Integers, Sequences, TLC, FiniteSets
CONSTANTS KF_NoCommitInSetSeqNum, MaxOps, Seqs
VARIABLES D, U, open, done, cur, pc, ops, crashed, R
(* D, U : [inC, outC, in: SUBSET Seqs, out: SUBSET Seqs]   U = connection's view (D + uncommitted)
   open : a transaction is open (U may differ from D)
   done : sequence of completed operations (returned to the caller)
   cur  : operation in flight ("none" or a record), pc : next statement index of cur
   R    : recovered state after crash (or "none") *)
vars == <<D, U, open, done, cur, pc, ops, crashed, R>>

DB0 == [inC |-> 0, outC |-> 0, in |-> {}, out |-> {}]
NoOp == [t |-> "none"]
Ops == [t: {"persist"}, dir: {"in","out"}, n: Seqs] \cup [t: {"setseq"}, nin: Seqs, nout: Seqs]

\* statement lists
Stmts(o) == IF o.t = "persist" THEN <<"INSERT", "UPDATE", "COMMIT">>
            ELSE IF KF_NoCommitInSetSeqNum THEN <<"UPDATE", "DELIN", "DELOUT">>
            ELSE <<"UPDATE", "DELIN", "DELOUT", "COMMIT">>

Dup(db, o) == o.t = "persist" /\ o.n \in (IF o.dir = "in" THEN db.in ELSE db.out)

ApplyStmt(db, o, s) ==
  IF o.t = "persist" THEN
     CASE s = "INSERT" -> IF o.dir = "in" THEN [db EXCEPT !.in = @ \cup {o.n}] ELSE [db EXCEPT !.out = @ \cup {o.n}]
       [] s = "UPDATE" -> IF o.dir = "in" THEN [db EXCEPT !.inC = o.n] ELSE [db EXCEPT !.outC = o.n]
       [] OTHER -> db
  ELSE
     CASE s = "UPDATE" -> [db EXCEPT !.inC = o.nin - 1, !.outC = o.nout - 1]
       [] s = "DELIN"  -> [db EXCEPT !.in = {x \in @ : x < o.nin}]
       [] s = "DELOUT" -> [db EXCEPT !.out = {x \in @ : x < o.nout}]
       [] OTHER -> db

\* abstract (atomic) meaning of a completed operation: the reference model of C13
ApplyOp(db, o) ==
  IF o.t = "persist" THEN (IF Dup(db, o) THEN db ELSE ApplyStmt(ApplyStmt(db, o, "INSERT"), o, "UPDATE"))
  ELSE ApplyStmt(ApplyStmt(ApplyStmt(db, o, "UPDATE"), o, "DELIN"), o, "DELOUT")
RECURSIVE ApplyAll(_, _)
ApplyAll(db, os) == IF os = <<>> THEN db ELSE ApplyAll(ApplyOp(db, Head(os)), Tail(os))

Init == D = DB0 /\ U = DB0 /\ open = FALSE /\ done = <<>> /\ cur = NoOp /\ pc = 0 /\ ops = 0 /\ crashed = FALSE /\ R = DB0

Start == /\ ~crashed /\ cur.t = "none" /\ ops < MaxOps
         /\ \E o \in Ops : cur' = o /\ pc' = 1
         /\ ops' = ops + 1
         /\ UNCHANGED <<D, U, open, done, crashed, R>>

Step == /\ ~crashed /\ cur.t # "none"
        /\ LET s == Stmts(cur)[pc] IN
           IF cur.t = "persist" /\ s = "INSERT" /\ Dup(U, cur)
           THEN \* IntegrityError: statement fails, DuplicateSeqNoError raised, op completes with no change
                /\ done' = Append(done, cur) /\ cur' = NoOp /\ pc' = 0
                /\ open' = TRUE      \* python opened a transaction for the INSERT; it stays open
                /\ UNCHANGED <<D, U>>
           ELSE IF s = "COMMIT"
                THEN /\ D' = U /\ open' = FALSE /\ UNCHANGED U
                     /\ IF pc = Len(Stmts(cur)) THEN done' = Append(done, cur) /\ cur' = NoOp /\ pc' = 0
                        ELSE UNCHANGED <<done, cur>> /\ pc' = pc + 1
                ELSE /\ U' = ApplyStmt(U, cur, s) /\ open' = TRUE /\ UNCHANGED D
                     /\ IF pc = Len(Stmts(cur)) THEN done' = Append(done, cur) /\ cur' = NoOp /\ pc' = 0
                        ELSE UNCHANGED <<done, cur>> /\ pc' = pc + 1
        /\ UNCHANGED <<ops, crashed, R>>

Crash == /\ ~crashed /\ crashed' = TRUE /\ R' = D      \* abrupt exit at any statement boundary: only D survives
         /\ UNCHANGED <<D, U, open, done, cur, pc, ops>>
Close == /\ ~crashed /\ cur.t = "none" /\ crashed' = TRUE /\ R' = D   \* normal close: sqlite rolls the open txn back
         /\ UNCHANGED <<D, U, open, done, cur, pc, ops>>

Next == Start \/ Step \/ Crash \/ Close
Spec == Init /\ [][Next]_vars

\* ---- C08 clauses, evaluated in the crashed state ----
Before == ApplyAll(DB0, done)
After  == IF cur.t = "none" THEN Before ELSE ApplyOp(Before, cur)
J1 == crashed => R \in {Before, After}                 \* boundary between completed ops / in-flight atomic
J3 == crashed /\ cur.t = "none" => R = Before            \* everything that returned (incl. set_seq_num) is there; also normal close
RowWithoutCounter(db) == \/ \E n \in db.in : db.inC = 0
                         \/ \E n \in db.out : db.outC = 0
J1b == crashed => ~RowWithoutCounter(R)
====
