from h import *
async def logged_on():
    c=mk(); p=Peer(c)
    await c.send_msg(FIXMessage(FMsg.LOGON,{98:0,108:30}))
    await feed(c,p.frame(FMsg.LOGON,{98:0,108:30},seq=1))
    return c,p
async def main():
    # (a) backward reset
    c,p=await logged_on()
    for i in (2,3,4): await feed(c,p.frame('D',{11:'m%d'%i},seq=i))
    await feed(c,p.frame(FMsg.SEQUENCERESET,{123:'N',36:2},seq=5))
    print('after backward reset nin=',c._session.next_num_in, c.connection_state.name)
    await feed(c,p.frame('D',{11:'again'},seq=2))
    print('app',c.app)
    # (d) too-large BodyLength then valid frames
    codec=c._codec
    c2,p2=await logged_on()
    f_bad=p2.frame('D',{11:'bad'},seq=2).replace(b'\x019=',b'\x019=9',1)  # BodyLength prefixed with 9 -> huge
    f3=p2.frame('D',{11:'ok3'},seq=2); f4=p2.frame('D',{11:'ok4'},seq=3)
    buf=f_bad+f3+f4; got=[]
    while True:
        d,n,r=codec.decode(buf)
        if n>0: buf=buf[n:]
        if d is None: break
        got.append(d[11])
    print('huge bodylen: delivered',got,'left',len(buf))
    f_bad=p2.frame('D',{11:'bad'},seq=2)
    import re
    bl=int(re.search(rb'\x019=(\d+)\x01',f_bad).group(1))
    f_bad2=f_bad.replace(b'\x019=%d\x01'%bl, b'\x019=%d\x01'%(bl+40),1)
    buf=f_bad2+f3+f4; got=[]
    while True:
        d,n,r=codec.decode(buf)
        if n>0: buf=buf[n:]
        if d is None: break
        got.append(d[11])
    print('bodylen+40: delivered',got,'left',len(buf))
asyncio.run(main())

# (b)/(c): real reader task with StreamReader
async def reader_case(exc):
    c=mk(); p=Peer(c)
    r=asyncio.StreamReader(); c._socket_reader=r
    task=asyncio.create_task(c.socket_read_task())
    await asyncio.sleep(0)
    r.set_exception(exc)
    n=0
    async def ticker():
        nonlocal n
        while True:
            await asyncio.sleep(0); n+=1
    tk=asyncio.create_task(ticker())
    try:
        await asyncio.wait_for(asyncio.sleep(0.3),1)
        print(type(exc).__name__,'state',c.connection_state.name,'ticker ran',n)
    except Exception as e: print('timeout',e)
    task.cancel(); tk.cancel()
import signal
def alarm(*a): print('HANG: event loop starved (read loop spins)'); import os; os._exit(0)
signal.signal(signal.SIGALRM,alarm)
asyncio.run(reader_case(ConnectionResetError()))
signal.alarm(3)
asyncio.run(reader_case(TimeoutError()))
