from h import *
import vloop
class Link:
    def __init__(s): s.q={'IA':[], 'AI':[]}; s.up=True
class LW:
    def __init__(s,link,d): s.link=link; s.d=d; s.out=[]
    def write(s,b):
        s.out.append(b)
        if s.link.up: s.link.q[s.d].append(b)
    async def drain(s):
        if not s.link.up: raise ConnectionResetError('Connection lost')
    def close(s): pass
    async def wait_closed(s): pass
class EP(Conn):
    async def on_connect(s):
        s.ev.append('connect')
        if s.name=='I': await s.send_msg(FIXMessage(FMsg.LOGON,{98:0,108:30}))
def world():
    loop=vloop.VLoop(); vloop.install(loop)
    link=Link()
    I=EP(FIXProtocol44(),'I','A',Journaler(),'h',1); I.name='I'
    A=EP(FIXProtocol44(),'A','I',Journaler(),'h',1); A.name='A'
    eps={'I':I,'A':A}
    acc={'I':[], 'A':[]}
    def connect():
        link.up=True; link.q={'IA':[], 'AI':[]}
        for e,d in ((A,'AI'),(I,'IA')):
            e._socket_writer=LW(link,d); e._socket_reader=object(); e.w=e._socket_writer
            e._connection_state=ConnectionState.NETWORK_CONN_ESTABLISHED
        vloop.run(loop,A.on_connect()); vloop.run(loop,I.on_connect())
    def deliver(d):
        if not link.q[d]: return False
        raw=link.q[d].pop(0); dst=eps[d[1]]
        vloop.run(loop,feed(dst,raw)); return True
    def settle():
        n=0
        while link.q['IA'] or link.q['AI']:
            deliver('IA') or True; deliver('AI'); n+=1
            assert n<1000
    def brk():
        link.up=False; link.q={'IA':[], 'AI':[]}
        for e in (I,A): vloop.run(loop,e.disconnect(ConnectionState.DISCONNECTED_BROKEN_CONN))
    def send(e,pay):
        try: vloop.run(loop,eps[e].send_msg(FIXMessage('D',{11:pay}))); acc[e].append(pay); return 'ok'
        except Exception as ex: return type(ex).__name__
    def summary():
        return dict(Istate=I.connection_state.name, Astate=A.connection_state.name,
                    I=(I._session.next_num_in,I._session.next_num_out), A=(A._session.next_num_in,A._session.next_num_out),
                    A_got=[m for t,m in [(x[0],x[1]) for x in A.app]], I_got=[x[1] for x in I.app], acc=acc)
    return dict(connect=connect,deliver=deliver,settle=settle,brk=brk,send=send,summary=summary,I=I,A=A,link=link)
def payloads(ep): 
    return [ (s) for (_,s) in ep.app]
# scenario 1: one loss
w=world(); w['connect'](); w['settle']()
for k in ('m1','m2','m3'): w['send']('I',k)
w['brk']()                      # all three in flight lost
w['connect'](); w['settle']()
print('ONE LOSS  ',w['summary']())
# scenario 2: second loss during recovery (replays from I are in flight when the link dies again)
w=world(); w['connect'](); w['settle']()
for k in ('m1','m2','m3'): w['send']('I',k)
w['brk']()
w['connect']()
w['deliver']('IA')                       # A gets Logon with a too-high number -> Logon reply + ResendRequest
while w['link'].q['AI']: w['deliver']('AI')   # I gets Logon reply and the ResendRequest, services it
print('   replays in flight I->A:', len(w['link'].q['IA']), '| I', w['I'].connection_state.name, '| A', w['A'].connection_state.name)
w['brk']()                               # second loss: the replays are gone
w['connect'](); w['settle']()
print('TWO LOSSES',w['summary']())
for k in ('m4',): print('   send after recovery:', w['send']('I',k))
w['settle'](); print('   final     ',w['summary']())
