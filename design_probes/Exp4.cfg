INIT Init
NEXT Next
