INIT Init
NEXT Next
