# crash-point shim: replace asyncfix.journaler.sqlite3 with a proxy module; count statement boundaries; os._exit at k
import os, sys, sqlite3, types, subprocess, json
def child(fn,k):
    import asyncfix.journaler as J
    from asyncfix.message import MessageDirection
    cnt=[0]
    def point(label):
        cnt[0]+=1
        if cnt[0]==k:
            os.write(1,(json.dumps({"k":k,"label":label})+"\n").encode()); os._exit(0)
    class Cur:
        def __init__(s,c): s.c=c
        def execute(s,sql,*a):
            point("pre:"+sql.split()[0]); r=s.c.execute(sql,*a); point("post:"+sql.split()[0]); return r
        def __getattr__(s,n): return getattr(s.c,n)
        def __iter__(s): return iter(s.c)
        def __next__(s): return next(s.c)
    class Con:
        def __init__(s,c): s.c=c
        def cursor(s): return Cur(s.c.cursor())
        def commit(s): point("pre:commit"); s.c.commit(); point("post:commit")
        def __getattr__(s,n): return getattr(s.c,n)
    shim=types.SimpleNamespace(connect=lambda f: Con(sqlite3.connect(f)), IntegrityError=sqlite3.IntegrityError)
    J.sqlite3=shim
    j=J.Journaler(fn); s=j.create_or_load('T','S')
    j.persist_msg(b'\x0134=1\x01',s,MessageDirection.OUTBOUND)
    j.set_seq_num(s,next_num_out=5)
    j.persist_msg(b'\x0134=5\x01',s,MessageDirection.OUTBOUND)
    os.write(1,(json.dumps({"k":k,"label":"done","n":cnt[0]})+"\n").encode()); os._exit(0)
if len(sys.argv)>1:
    child(sys.argv[1],int(sys.argv[2]))
else:
    import asyncfix.journaler as J
    from asyncfix.message import MessageDirection
    for k in range(1,40):
        fn=f'/tmp/probe/c{k}.db'
        if os.path.exists(fn): os.remove(fn)
        out=subprocess.run([sys.executable,__file__,fn,str(k)],capture_output=True,text=True)
        j=J.Journaler(fn); 
        try:
            ss=j.sessions(); s=list(ss.values())[0] if ss else None
            rec=(str(s), [m[0] for m in j.get_all_msgs()])
        except Exception as e: rec=repr(e)
        print(out.stdout.strip(), rec)
        del j; os.remove(fn)
        if '"done"' in out.stdout: break
