SPECIFICATION Spec
CONSTANTS
  KF_LowSeqWhileAwaiting = TRUE
  KF_GapFillAbove = TRUE
  KF_BackwardReset = TRUE
  MaxN = 9
  Depth = 5
  DumpEdges = TRUE
VIEW View
CONSTRAINT Bound
ACTION_CONSTRAINT Dump2
CHECK_DEADLOCK FALSE
