from h import *
import time
async def main():
    t=time.time(); n=0
    for rep in range(300):
        c=mk(); p=Peer(c)
        await c.send_msg(FIXMessage(FMsg.LOGON,{98:0,108:30}))
        await feed(c,p.frame(FMsg.LOGON,{98:0,108:30},seq=1))
        for i in range(2,8):
            await feed(c,p.frame('D',{11:'x%d'%i},seq=i)); await c.send_msg(FIXMessage('D',{11:'y'})); n+=2
    dt=time.time()-t
    print('executions',300,'steps',n,'sec',round(dt,2),'us/step',round(dt/n*1e6))
    # stale buffer across disconnect
    c=mk(); p=Peer(c)
    c._msg_buffer=b'8=FIX.4.4\x019=50\x0135=D\x0149=B'
    await c.disconnect(ConnectionState.DISCONNECTED_BROKEN_CONN)
    print('buffer after disconnect',c._msg_buffer)
asyncio.run(main())
