---- MODULE Exp3 ----
EXTENDS Integers, Sequences, TLC, Json, IOUtils, FiniteSets, SequencesExt, Functions, Folds
Frames == JsonDeserialize(IOEnv.FRAME_FILE)
SOH == 1
EQ == 61
IsDigit(b) == b >= 48 /\ b <= 57
\* positions of SOH
SohPos(f) == SelectSeq([i \in 1..Len(f) |-> i], LAMBDA i : f[i] = SOH)
RECURSIVE NumVal(_, _, _, _)
NumVal(f, i, j, acc) == IF i > j THEN acc ELSE NumVal(f, i + 1, j, acc * 10 + (f[i] - 48))
RECURSIVE SumBytes(_, _, _, _)
SumBytes(f, i, j, acc) == IF i > j THEN acc ELSE SumBytes(f, i + 1, j, (acc + f[i]) % 256)
Prefix(f, i, p) == i + Len(p) - 1 <= Len(f) /\ \A k \in 1..Len(p) : f[i + k - 1] = p[k]
WellFormed(f) ==
  LET sp == SohPos(f) IN
  /\ Len(sp) >= 4
  /\ f[Len(f)] = SOH
  /\ Prefix(f, 1, <<56, 61, 70, 73, 88, 46>>)       \* 8=FIX.
  /\ Prefix(f, sp[1] + 1, <<57, 61>>)               \* 9=
  /\ \A k \in (sp[1] + 3)..(sp[2] - 1) : IsDigit(f[k])
  /\ sp[2] - 1 >= sp[1] + 3
  /\ Prefix(f, sp[2] + 1, <<51, 53, 61>>)           \* 35=
  /\ LET lastField == sp[Len(sp) - 1] + 1 IN
       /\ Prefix(f, lastField, <<49, 48, 61>>)      \* 10=
       /\ Len(f) = lastField + 6
       /\ \A k \in (lastField + 3)..(lastField + 5) : IsDigit(f[k])
       /\ NumVal(f, sp[1] + 3, sp[2] - 1, 0) = lastField - 1 - sp[2]
       /\ NumVal(f, lastField + 3, lastField + 5, 0) = SumBytes(f, 1, lastField - 1, 0)
BadFrames == { i \in 1..Len(Frames) : ~WellFormed(Frames[i]) }
ASSUME PrintT(<<"RESULT", Len(Frames), BadFrames>>)
VARIABLE x
Init == x = 0
Next == x' = x
====
