---- MODULE Exp4 ----
EXTENDS Integers, Sequences, TLC, Json, IOUtils, FiniteSets, SequencesExt
ASSUME PrintT(<<"strlen", Len("abc"), "ab" \o "cd", SubSeq("abcdef", 2, 3)>>)
ASSUME PrintT(<<"idx", SubSeq("abc",1,1) = "a">>)
Alpha == <<"0","1","-",".","_"," ">>
Strs(n) == UNION { [1..k -> 1..Len(Alpha)] : k \in 0..n }
ASSUME PrintT(<<"count", Cardinality(Strs(4))>>)
ASSUME ndJsonSerialize("/tmp/tlaexp/out.ndjson", <<[a |-> 1, b |-> <<1,2>>], [a |-> 2, b |-> <<>>]>>)
VARIABLE x
Init == x = 0
Next == x' = x
====
