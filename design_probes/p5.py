from h import *
import os, subprocess, sys, tempfile
# C08: set_seq_num not committed, normal close
fn='/tmp/probe/j.db'
if os.path.exists(fn): os.remove(fn)
j=Journaler(fn); s=j.create_or_load('T','S')
j.persist_msg(b'8=FIX.4.4\x019=5\x0134=1\x01',s,MessageDirection.OUTBOUND)
j.persist_msg(b'8=FIX.4.4\x019=5\x0134=2\x01',s,MessageDirection.OUTBOUND)
j.set_seq_num(s,next_num_out=10,next_num_in=5)
print('live',s)
del j
j2=Journaler(fn); print('reopen after close',j2.create_or_load('T','S'), j2.sessions())
# C13: sessions() off by one
j=Journaler(); s=j.create_or_load('T','S'); j.persist_msg(b'\x0134=1\x01',s,MessageDirection.OUTBOUND); j.persist_msg(b'\x0134=1\x01',s,MessageDirection.INBOUND)
print(j.create_or_load('T','S'), j.sessions())
# mirror sessions
s2=j.create_or_load('S','T'); print(s2, s==s2, hash(s)==hash(s2))
# dup
try: j.persist_msg(b'\x0134=1\x01',s,MessageDirection.OUTBOUND)
except Exception as e: print('dup',type(e).__name__)
print(j.create_or_load('T','S'))
# after failed insert is there a pending txn?
print('in_transaction',j.conn.in_transaction)
# descending number store
j.persist_msg(b'\x0134=9\x01',s,MessageDirection.OUTBOUND); j.persist_msg(b'\x0134=4\x01',s,MessageDirection.OUTBOUND)
print(j.create_or_load('T','S'), j.recover_messages(s,MessageDirection.OUTBOUND,0,100))
print(j.recover_messages(s,MessageDirection.OUTBOUND,'2','10'))
