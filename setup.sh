#!/bin/sh
# Offline setup: parse every TLA+ module with SANY and byte-compile the harness.
set -e
cd "$(dirname "$0")"
mkdir -p evidence .work
/venv/bin/python -m compileall -q harness >/dev/null
for f in spec/*.tla; do
  [ -f "$f" ] || continue
  ( cd spec && timeout 120 tla-sany "$(basename "$f")" >/dev/null 2>&1 ) || { echo "SANY failed: $f"; exit 1; }
done
echo setup ok
