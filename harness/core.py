"""Common check driver: context, verdict from TLC-evaluated monitor failures, known
findings, evidence file, VIOLATION / KNOWN-FINDING / MODEL-DRIFT lines.

Exit codes: 0 property held on everything explored (known findings are reported, not
alarmed); 1 at least one violation not explained by a listed finding; 2 machinery failure.
"""
import hashlib
import importlib
import json
import os
import shutil
import sys
import time
import traceback

VERIF = os.path.dirname(os.path.dirname(os.path.abspath(__file__)))
if __import__("harness").REPO not in sys.path:
    sys.path.insert(0, __import__("harness").REPO)

from . import tlc  # noqa: E402


class Ctx:
    def __init__(self, prop, tier, seed, replay=None):
        self.prop = prop
        self.tier = tier
        self.seed = seed
        self.replay = replay
        self.work = os.path.join(VERIF, ".work", "%s_%s_%d" % (prop, tier, os.getpid()))
        self.t0 = time.time()
        self.quick = tier == "quick"

    def sub(self, name):
        p = os.path.join(self.work, name)
        os.makedirs(p, exist_ok=True)
        return p

    def log(self, *a):
        print("[%s %6.1fs]" % (self.prop, time.time() - self.t0), *a, flush=True)


def load_findings():
    with open(os.path.join(VERIF, "known_findings.json")) as fh:
        return json.load(fh)


class Outcome:
    """What a property module returns."""

    def __init__(self):
        self.states = 0          # TLC distinct states (design model(s))
        self.transitions = 0     # TLC generated states / transitions
        self.traces = 0          # implementation executions evaluated
        self.traces_ok = 0       # those with no monitor failure and no drift
        self.failures = []       # dict(clause, triggers, input, detail, trace)
        self.drift = 0           # conformance mismatches (never an alarm)
        self.drift_samples = []
        self.samples = []
        self.extra = {}
        self.assumptions = []
        self.exhaustive = False
        self.clause_hits = {}

    def add_tlc(self, r):
        self.states += r.get("distinct", 0)
        self.transitions += r.get("generated", 0)

    def hit(self, d):
        for k, v in (d or {}).items():
            self.clause_hits[k] = self.clause_hits.get(k, 0) + v


def verdict(ctx, out):
    """Match failures against known findings, print lines, write evidence, return exit code."""
    kf = load_findings()
    open_f = [f for f in kf.get("findings", []) if f["property"] == ctx.prop and f.get("status", "open") == "open"]
    seen = {}
    unexplained = []
    for fl in out.failures:
        expl = None
        for f in open_f:
            if fl["clause"] in f["clauses"] and (f["trigger"] in fl.get("triggers", [])):
                expl = f
                break
        if expl is not None:
            seen.setdefault(expl["id"], [expl, 0])[1] += 1
        else:
            unexplained.append(fl)
    for fid, (f, n) in sorted(seen.items()):
        print("KNOWN-FINDING: property=%s %s [%s; clause(s) %s; seen %d time(s) in this run]"
              % (ctx.prop, f["what"], fid, ",".join(f["clauses"]), n))
    if out.drift:
        print("MODEL-DRIFT: property=%s %d implementation step(s) differ from the as-is model without "
              "breaking a property clause (not an alarm)" % (ctx.prop, out.drift))
    rc = 0
    rdir = os.path.join(VERIF, "replays")
    if unexplained:
        os.makedirs(rdir, exist_ok=True)
        # group by clause, report the first few
        byc = {}
        for fl in unexplained:
            byc.setdefault(fl["clause"], []).append(fl)
        for c, lst in sorted(byc.items()):
            fl = min(lst, key=lambda x: len(json.dumps(x.get("input"), default=str)))
            h = hashlib.sha1(json.dumps(fl.get("input"), sort_keys=True, default=str).encode()).hexdigest()[:10]
            path = os.path.join(rdir, "%s_%s_%s.json" % (ctx.prop, c, h))
            with open(path, "w") as fh:
                json.dump({"property": ctx.prop, "clause": c, "count": len(lst), "input": fl.get("input"),
                           "detail": fl.get("detail"), "triggers": fl.get("triggers", []),
                           "trace": fl.get("trace")}, fh, indent=1, default=str)
            print("VIOLATION property=%s replay=%s" % (ctx.prop, path))
            print("  clause %s failed on %d execution(s); e.g. %s" % (c, len(lst), json.dumps(fl.get("detail"), default=str)[:600]))
        rc = 1
    write_evidence(ctx, out, len(unexplained), sorted(seen))
    return rc


def write_evidence(ctx, out, nviol, kf_seen):
    cov = {
        "states": int(out.states),
        "transitions": int(out.transitions),
        "traces_validated_against_impl": int(out.traces_ok),
        "samples": out.samples[:8] or ["(no sample recorded)"],
        "implementation_executions": int(out.traces),
        "monitor_clause_hits": out.clause_hits,
        "drift_steps": int(out.drift),
        "drift_samples": out.drift_samples[:5],
        "known_findings_seen": kf_seen,
        "exhaustive": bool(out.exhaustive),
    }
    cov.update(out.extra)
    ev = {
        "property_id": ctx.prop,
        "tier": ctx.tier,
        "seed": int(ctx.seed),
        "level": "model_checking",
        "coverage": cov,
        "assumptions": out.assumptions,
        "wall_s": round(time.time() - ctx.t0, 2),
        "violations": int(nviol),
    }
    # X.. = checks beyond the listed properties: their evidence is kept apart from evidence/<property id>.json
    edir = os.path.join(VERIF, "evidence_extra" if ctx.prop.startswith("X") else "evidence")
    if os.path.realpath(__import__("harness").REPO) != "/" + "repo":
        # a scratch tree selected with VERIF_REPO (seeded / benign change experiments): never touch the committed evidence
        edir = os.path.join(VERIF, ".work", "evidence_scratch")
    os.makedirs(edir, exist_ok=True)
    with open(os.path.join(edir, ctx.prop + ".json"), "w") as fh:
        json.dump(ev, fh, indent=1, default=str)


def main(argv=None):
    import argparse
    ap = argparse.ArgumentParser(prog="check")
    ap.add_argument("prop")
    ap.add_argument("--tier", default=os.environ.get("VERIF_TIER", "quick"), choices=["quick", "thorough"])
    ap.add_argument("--replay", default=None)
    ap.add_argument("--keep", action="store_true", help="keep the scratch directory")
    a = ap.parse_args(argv)
    seed = int(os.environ.get("VERIF_SEED", "0") or 0)
    ctx = Ctx(a.prop, a.tier, seed, a.replay)
    rc = 2
    try:
        mod = importlib.import_module("harness.props.%s" % a.prop.lower())
        os.makedirs(ctx.work, exist_ok=True)
        if a.replay:
            with open(a.replay) as fh:
                rp = json.load(fh)
            out = mod.replay(ctx, rp["input"])
        else:
            out = mod.run(ctx)
        rc = verdict(ctx, out)
        ctx.log("done rc=%d states=%d transitions=%d impl_traces=%d ok=%d failures=%d drift=%d wall=%.1fs"
                % (rc, out.states, out.transitions, out.traces, out.traces_ok, len(out.failures), out.drift,
                   time.time() - ctx.t0))
    except tlc.MachineryError as ex:
        print("MACHINERY-FAILURE property=%s: %s" % (a.prop, ex))
        rc = 2
    except Exception:
        print("MACHINERY-FAILURE property=%s: unexpected exception" % a.prop)
        traceback.print_exc()
        rc = 2
    finally:
        if not a.keep:
            shutil.rmtree(ctx.work, ignore_errors=True)
    return rc
