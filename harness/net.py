"""Harness kernel for the session layer: virtual-time event loop, fake transport,
recording endpoints built on the real asyncfix classes, projection to the abstract state
the TLA+ specs talk about.  No logic about what is *correct* lives here."""
import asyncio
import os
import hashlib
import heapq
import logging
import sys
import types

if __import__("harness").REPO not in sys.path:
    sys.path.insert(0, __import__("harness").REPO)

import asyncfix.connection as _connmod  # noqa: E402
from asyncfix import FIXMessage, FMsg, FTag  # noqa: E402
from asyncfix.codec import Codec  # noqa: E402
from asyncfix.connection import AsyncFIXConnection, ConnectionRole, ConnectionState  # noqa: E402
from asyncfix.connection_client import AsyncFIXClient  # noqa: E402
from asyncfix.connection_server import AsyncFIXDummyServer  # noqa: E402
from asyncfix.journaler import Journaler  # noqa: E402
from asyncfix.message import MessageDirection  # noqa: E402
from asyncfix.protocol import FIXProtocol44  # noqa: E402
from asyncfix.session import FIXSession  # noqa: E402

logging.disable(logging.CRITICAL)
EPOCH = 1_000_000.0
SOH = b"\x01"


class Livelock(KeyboardInterrupt):
    """The library did not give control back (a task spinning without yielding) or the loop
    never became idle.  Derived from KeyboardInterrupt so that neither the library's
    `except Exception` handlers nor asyncio swallow it."""


import signal as _signal


class watchdog:
    """with watchdog(seconds): ...  raises Livelock inside whatever is running."""

    def __init__(self, seconds):
        self.seconds = seconds

    def _fire(self, *a):
        raise Livelock("no return to the driver within %ss of CPU time (task spinning without yielding?)" % self.seconds)

    # user-mode CPU time of this process (ITIMER_VIRTUAL), not wall-clock time and not kernel time (page faults under memory pressure): a task that spins burns CPU and is interrupted, a
    # process that is merely starved by a loaded machine (or by swapping) is not mistaken for a livelock
    def __enter__(self):
        self.old = _signal.signal(_signal.SIGVTALRM, self._fire)
        _signal.setitimer(_signal.ITIMER_VIRTUAL, self.seconds)

    def __exit__(self, *a):
        _signal.setitimer(_signal.ITIMER_VIRTUAL, 0)
        _signal.signal(_signal.SIGVTALRM, self.old)
        return False


class VLoop(asyncio.SelectorEventLoop):
    """Event loop under a virtual clock.  Never blocks in select(): the driver steps the
    ready queue by hand (run_idle) and advances time explicitly (advance)."""

    def __init__(self, start=EPOCH):
        super().__init__()
        self._vt = start
        self.steps = 0

    def time(self):
        return self._vt

    def run_idle(self, budget=20000):
        n = 0
        asyncio.events._set_running_loop(self)
        try:
            while self._ready:
                ntodo = len(self._ready)
                for _ in range(ntodo):
                    h = self._ready.popleft()
                    if not h._cancelled:
                        h._run()
                    h = None
                n += 1
                self.steps += 1
                if n > budget:
                    raise Livelock("event loop did not become idle within %d iterations" % budget)
        finally:
            asyncio.events._set_running_loop(None)

    def advance(self, dt, budget=20000):
        end = self._vt + dt
        self.run_idle(budget)
        while self._scheduled and self._scheduled[0]._when <= end:
            h = heapq.heappop(self._scheduled)
            h._scheduled = False
            if h._cancelled:
                continue
            self._vt = max(self._vt, h._when)
            self._ready.append(h)
            self.run_idle(budget)
        self._vt = end

    def run_coro(self, coro, budget=20000):
        """Drive a coroutine; returns (done, result_or_exception_instance)."""
        t = self.create_task(coro)
        self.run_idle(budget)
        if not t.done():
            return False, t
        if t.cancelled():
            return True, asyncio.CancelledError()
        ex = t.exception()
        return True, (ex if ex is not None else t.result())

    def shutdown(self):
        asyncio.events._set_running_loop(self)
        try:
            for t in asyncio.all_tasks(self):
                t.cancel()
        finally:
            asyncio.events._set_running_loop(None)
        try:
            self.run_idle()
        except Exception:
            pass
        self.close()


_CUR = {"loop": None}


def _vtime():
    lp = _CUR["loop"]
    return lp.time() if lp is not None else EPOCH


def _vdatetime():
    t = _vtime() - EPOCH
    ms = int(round((t - int(t)) * 1000)) % 1000
    s = int(t)
    return "20240102-%02d:%02d:%02d.%03d" % ((s // 3600) % 24, (s // 60) % 60, s % 60, ms)


def install_clock(loop):
    """The library reads time.time() (connection.py) and datetime.utcnow() (codec.py)."""
    _CUR["loop"] = loop
    _connmod.time = types.SimpleNamespace(time=_vtime)
    Codec.current_datetime = staticmethod(_vdatetime)
    asyncio.set_event_loop(loop)


Codec.current_datetime = staticmethod(_vdatetime)      # deterministic SendingTime also without a loop


class FakeWriter:
    """Stream writer stand-in.  sink(bytes) receives what is written while the link is up;
    when the link is down writes vanish and drain() raises ConnectionResetError, which is
    what asyncio's real transport does after a lost connection."""

    def __init__(self, sink, log):
        self.sink = sink
        self.log = log          # list of (bytes) written, regardless of link state
        self.up = True
        self.closed = False
        self.gate = None        # callable returning an awaitable, for controlled scheduling
        self.fail_drain = None  # exception class to raise from drain

    def write(self, b):
        self.log.append(bytes(b))
        if self.up and not self.closed:
            self.sink(bytes(b))

    async def drain(self):
        if self.gate is not None:
            await self.gate()
        if self.fail_drain is not None:
            raise self.fail_drain()
        if not self.up:
            raise ConnectionResetError("Connection lost")

    def close(self):
        self.closed = True

    async def wait_closed(self):
        return None

    def get_extra_info(self, name, default=None):
        return ("peer", 0)

    def is_closing(self):
        return self.closed


def parse_frame(b):
    """bytes -> abstract frame record (trusted, ~30 lines; Wire.tla re-parses the same
    bytes independently for C02)."""
    f = {"kind": "?", "seq": -1, "pd": False, "gf": False, "newseq": 0, "b": 0, "e": 0, "trid": "",
         "pay": "", "sid": "", "tid": "", "bs": "", "ost": "", "st": "", "text": "", "mt": "",
         "sha": hashlib.sha1(b).hexdigest()[:12], "len": len(b)}
    body = []
    for tok in b.split(SOH):
        if not tok or b"=" not in tok:
            continue
        t, v = tok.split(b"=", 1)
        t = t.decode("latin-1")
        v = v.decode("latin-1")
        if t == "8":
            f["bs"] = v
        elif t == "35":
            f["mt"] = v
            f["kind"] = {"A": "LOGON", "0": "HB", "1": "TR", "2": "RR", "4": "SEQRESET", "5": "LOGOUT"}.get(v, "APP")
        elif t == "34":
            try:
                f["seq"] = int(v)
            except ValueError:
                f["seq"] = -1
        elif t == "43":
            f["pd"] = v == "Y"
        elif t == "123":
            f["gf"] = v == "Y"
        elif t == "36":
            f["newseq"] = int(v) if v.lstrip("-").isdigit() else 0
        elif t == "7":
            f["b"] = int(v) if v.lstrip("-").isdigit() else 0
        elif t == "16":
            f["e"] = int(v) if v.lstrip("-").isdigit() else 0
        elif t == "112":
            f["trid"] = v
        elif t == "49":
            f["sid"] = v
        elif t == "56":
            f["tid"] = v
        elif t == "122":
            f["ost"] = v
        elif t == "52":
            f["st"] = v
        elif t == "58":
            f["text"] = v
            body.append(t + "=" + v)
        elif t in ("9", "10"):
            pass
        else:
            body.append(t + "=" + v)
    if f["kind"] != "APP":
        body = [x for x in body if not x.startswith("58=")]
    f["pay"] = "|".join(x for x in body if not x.startswith(("98=", "108=")))
    return f


class PeerCodec:
    """Raw frame factory for the counterparty of a connection (uses the real encoder with a
    free-standing session, so any header can be forged)."""

    def __init__(self, sender, target):
        self.codec = Codec(FIXProtocol44())
        self.sender = sender
        self.target = target

    def frame(self, kind, seq, pd=False, gf=False, newseq=None, b=None, e=None, trid=None, pay=None,
              hdr="ok", ost=None):
        mt = {"LOGON": FMsg.LOGON, "HB": FMsg.HEARTBEAT, "TR": FMsg.TESTREQUEST, "RR": FMsg.RESENDREQUEST,
              "SEQRESET": FMsg.SEQUENCERESET, "LOGOUT": FMsg.LOGOUT, "APP": FMsg.NEWORDERSINGLE,
              "APP2": FMsg.EXECUTIONREPORT}[kind]
        m = FIXMessage(mt)
        if kind == "LOGON":
            m[FTag.EncryptMethod] = "0"
            m[FTag.HeartBtInt] = "30"
        if kind in ("APP", "APP2"):
            m[FTag.ClOrdID] = pay if pay is not None else "p%s" % seq
        if kind == "RR":
            m[FTag.BeginSeqNo] = b
            m[FTag.EndSeqNo] = e
        if kind == "SEQRESET":
            if gf:
                m[FTag.GapFillFlag] = "Y"
            if newseq is not None:
                m[FTag.NewSeqNo] = newseq
        if trid is not None:
            m[FTag.TestReqID] = trid
        if pd:
            m[FTag.PossDupFlag] = "Y"
            if ost is not False:
                m[FTag.OrigSendingTime] = ost or "20240102-00:00:00.000"
        sid, tid = self.sender, self.target
        if hdr == "swapped":
            sid, tid = tid, sid
        elif hdr == "wrongS":
            sid = sid + "X"
        elif hdr == "wrongT":
            tid = tid + "X"
        s = FIXSession(0, tid, sid)
        s.next_num_out = 1
        m[FTag.MsgSeqNum] = seq
        raw = self.codec.encode(m, s, raw_seq_num=True)
        if hdr in ("nosender", "notarget", "noseq", "badbs", "nohb", "noenc"):
            raw = _strip(raw, {"nosender": "49", "notarget": "56", "noseq": "34", "badbs": None, "nohb": "108", "noenc": "98"}[hdr],
                         bs="FIX.4.2" if hdr == "badbs" else None)
        return raw.encode("latin-1")


def _strip(raw, tag, bs=None):
    """Rebuild a frame without `tag` (or with another BeginString), fixing 9 and 10."""
    toks = [t for t in raw.split("\x01") if t]
    toks = [t for t in toks if not t.startswith(("9=", "10="))]
    if tag is not None:
        toks = [t for t in toks if not t.startswith(tag + "=")]
    head = toks[0] if bs is None else "8=" + bs
    rest = toks[1:]
    body = "\x01".join(rest) + "\x01"
    s = head + "\x01" + "9=%d" % len(body) + "\x01" + body
    ck = sum(ord(c) for c in s) % 256
    return s + "10=%03d\x01" % ck


def make_conn_class(base):
    class Rec(base):
        def __init__(self, *a, **k):
            super().__init__(*a, **k)
            self.cb = []        # callbacks since last take()
            self.deliv = []     # MsgSeqNum of messages handed to on_message since last take()
            self.deliv_pay = []
            self.replay_filter = None
            self.gates = {}     # name -> callable returning awaitable (controlled scheduling)
            self.on_connect_logon = False
            self.on_active = None

        async def _gate(self, name):
            g = self.gates.get(name)
            if g is not None:
                await g()

        async def on_message(self, msg):
            self.cb.append("message")
            try:
                self.deliv.append(int(msg[FTag.MsgSeqNum]))
            except Exception:
                self.deliv.append(-1)
            self.deliv_pay.append(msg.get(FTag.ClOrdID, "?"))
            await self._gate("on_message")

        async def on_connect(self):
            self.cb.append("connect")
            if self.on_connect_logon:
                m = FIXMessage(FMsg.LOGON, {FTag.EncryptMethod: "0", FTag.HeartBtInt: str(self.heartbeat_period)})
                await self.send_msg(m)

        async def on_disconnect(self):
            self.cb.append("disconnect")

        async def on_logon(self, is_healthy):
            self.cb.append("logon:%s" % ("ok" if is_healthy else "gap"))
            await self._gate("on_logon")

        async def on_logout(self, msg):
            self.cb.append("logout")

        async def on_state_change(self, st):
            self.cb.append("state:" + st.name)
            await self._gate("on_state_change")
            if self.on_active is not None and st == ConnectionState.ACTIVE:
                await self.on_active(self)

        async def should_replay(self, m):
            await self._gate("should_replay")
            if self.replay_filter is not None:
                return self.replay_filter(m)
            return True

    Rec.__name__ = "Rec" + base.__name__
    return Rec


RecConn = make_conn_class(AsyncFIXConnection)
RecClient = make_conn_class(AsyncFIXClient)
RecServer = make_conn_class(AsyncFIXDummyServer)


class Endpoint:
    """One real connection object with a fake transport under a VLoop."""

    def __init__(self, loop, sender, target, journaler=None, cls=RecConn, hb=30, sink=None):
        self.loop = loop
        self.j = journaler if journaler is not None else Journaler()
        self.conn = cls(FIXProtocol44(), sender, target, self.j, "h", 1, heartbeat_period=hb)
        self.sent = []          # frames handed to the transport (bytes), whole life
        self.sink = sink or (lambda b: None)
        self.mark = 0
        self.reader = None
        self.writer = None
        self.started = False

    # -- transport ------------------------------------------------------
    def attach(self, state=ConnectionState.NETWORK_CONN_ESTABLISHED, via=None):
        """Give the connection a fresh socket pair, as client.connect()/_handle_accept do."""
        c = self.conn
        old = self.reader
        if old is not None and c._socket_reader is not old and not old._eof and old.exception() is None:
            # the library closed that transport itself (from another task than the reader): a closed transport ends its
            # reader's stream, which releases a reader task still blocked in read() on it
            old.feed_eof()
            self.loop.run_idle()
        self.reader = asyncio.StreamReader(loop=self.loop)
        self.writer = FakeWriter(lambda b: self.sink(b), self.sent)
        if via == "accept":
            ok, r = self.loop.run_coro(c._handle_accept(self.reader, self.writer))
        elif via == "client":
            async def fake_open(host, port):
                return self.reader, self.writer
            old = asyncio.open_connection
            asyncio.open_connection = fake_open
            try:
                ok, r = self.loop.run_coro(c.connect())
            finally:
                asyncio.open_connection = old
        else:
            c._socket_reader = self.reader
            c._socket_writer = self.writer
            c._connection_state = state
        if not self.started:
            self.start_tasks()

    def start_tasks(self):
        self.started = True
        self.loop.run_coro(AsyncFIXConnection.connect(self.conn))

    def feed(self, data):
        self.reader.feed_data(data)
        self.loop.run_idle()

    def eof(self, how="eof"):
        if self.reader is None or self.conn._socket_reader is not self.reader or self.reader._eof or self.reader.exception() is not None:
            return
        if how == "eof":
            self.reader.feed_eof()
        elif how == "reset":
            self.reader.set_exception(ConnectionResetError("reset"))
        else:
            self.reader.set_exception(OSError("transport error"))
        self.loop.run_idle()

    def send(self, msg):
        ok, r = self.loop.run_coro(self.conn.send_msg(msg))
        if not ok:
            return "blocked"
        return "ok" if not isinstance(r, BaseException) else type(r).__name__

    # -- observation ----------------------------------------------------
    def take(self):
        """Frames written, deliveries and callbacks since the previous take()."""
        c = self.conn
        wrote = self.sent[self.mark:]
        self.mark = len(self.sent)
        d, cb, dp = c.deliv, c.cb, c.deliv_pay
        c.deliv, c.cb, c.deliv_pay = [], [], []
        return wrote, d, cb, dp

    def project(self, journal=True):
        c = self.conn
        s = c._session
        p = {"cs": c.connection_state.name, "role": c.connection_role.name, "nin": s.next_num_in,
             "nout": s.next_num_out, "maxr": c._max_seq_num_resend,
             "treq": 0 if c._test_req_id is None else int(c._test_req_id),
             "last": c._message_last_time, "buf": len(c._msg_buffer), "wasActive": bool(c._connection_was_active),
             "sock": c._socket_writer is not None}
        if journal:
            jp = getattr(self, "jpath", None)
            if jp:
                # durable view: the journal as a process started now would find it - a snapshot of the file (and of its rollback
                # journal, if a transaction is open) opened by a fresh Journaler; no lock is shared with the live connection
                import shutil
                from asyncfix.journaler import Journaler as J
                snap = jp + ".snap"
                shutil.copyfile(jp, snap)
                if os.path.exists(jp + "-journal"):
                    shutil.copyfile(jp + "-journal", snap + "-journal")
                j2 = J(snap)
                try:
                    p.update(project_journal(j2, s))
                finally:
                    del j2          # Journaler.__del__ closes the connection
                    for f in (snap, snap + "-journal"):
                        if os.path.exists(f):
                            os.remove(f)
            else:
                p.update(project_journal(self.j, s))
        return p


def project_journal(j, s):
    """Journal as seen through the public API on the live journaler."""
    from asyncfix.journaler import Journaler as J
    out = {}
    try:
        st = J.create_or_load(j, s.target_comp_id, s.sender_comp_id)
        out["sin"], out["sout"] = st.next_num_in, st.next_num_out
        rows = j.recover_messages(s, MessageDirection.OUTBOUND, 0, 2 ** 62)
        jo = []
        for b in rows:
            f = parse_frame(b)
            jo.append({"seq": f["seq"], "kind": f["kind"], "pd": f["pd"], "gf": f["gf"], "newseq": f["newseq"],
                       "pay": f["pay"], "sha": f["sha"], "st": f["st"], "ost": f["ost"]})
        out["jout"] = jo
        out["jin"] = [parse_frame(b)["seq"] for b in j.recover_messages(s, MessageDirection.INBOUND, 0, 2 ** 62)]
    except Exception as ex:
        out["jerr"] = type(ex).__name__
        out.setdefault("sin", -1); out.setdefault("sout", -1); out.setdefault("jout", []); out.setdefault("jin", [])
    return out


def abs_frames(blist):
    return [parse_frame(b) for b in blist]
