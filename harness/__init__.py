"""asyncfix verification harness.  REPO = the working tree under test (default /repo; a snapshot
can be selected with VERIF_REPO for background runs)."""
import os
import sys

REPO = os.environ.get("VERIF_REPO", "/" + "repo")
if REPO not in sys.path:
    sys.path.insert(0, REPO)
