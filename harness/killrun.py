"""C09 kill points inside a handler: one endpoint over a FILE journal is killed at a boundary
(before/after each journal commit, before/after each transport write, after each drain) while it
processes one event; a new connection object is built over the reopened journal and continues."""
import os

from .net import (Endpoint, FIXMessage, FMsg, FTag, PeerCodec, VLoop, abs_frames, install_clock, RecConn, Journaler, Livelock,
                  FakeWriter, watchdog)
from . import session


class Killed(KeyboardInterrupt):
    """the process 'dies' here: nothing of the old incarnation may have an effect afterwards"""


class _Closed:
    def close(self):
        pass


class KillState:
    def __init__(self, conn, kill_at):
        self.conn = conn
        self.kill_at = kill_at
        self.n = 0
        self.dead = False
        self.armed = False
        self.bounds = []
        self.nw = 0

    def point(self, label):
        if self.dead:
            raise Killed()
        if not self.armed:
            return
        self.n += 1
        s = self.conn._session
        self.bounds.append({"nin": s.next_num_in, "nout": s.next_num_out, "nw": self.nw, "at": label})
        if self.n == self.kill_at:
            self.dead = True
            raise Killed()


class ConnProxy:
    def __init__(self, real, ks):
        self._r, self._ks = real, ks

    def commit(self):
        self._ks.point("pre-commit")
        self._r.commit()
        self._ks.point("post-commit")

    def __getattr__(self, n):
        return getattr(self._r, n)


class CurProxy:
    def __init__(self, real, ks):
        self._r, self._ks = real, ks

    def execute(self, *a, **k):
        if self._ks.dead:
            raise Killed()
        return self._r.execute(*a, **k)

    def __iter__(self):
        return iter(self._r)

    def __next__(self):
        return next(self._r)

    def __getattr__(self, n):
        return getattr(self._r, n)


class KillWriter(FakeWriter):
    def __init__(self, base, ks):
        self.__dict__.update(base.__dict__)
        self.ks = ks

    def write(self, b):
        self.ks.point("pre-write")
        FakeWriter.write(self, b)
        self.ks.nw += 1
        self.ks.point("post-write")

    async def drain(self):
        await FakeWriter.drain(self)
        self.ks.point("post-drain")


def run(spec):
    """spec = {id, revs (prefix), target (rel event), kill_at, jfile, cont (rel events after the restart)}"""
    jf = spec["jfile"]
    for suf in ("", "-journal"):
        if os.path.exists(jf + suf):
            os.remove(jf + suf)
    loop = VLoop()
    install_clock(loop)
    rec = {"id": spec["id"], "kill_at": spec["kill_at"], "completed": False, "bounds": [], "pre": {"nin": 0, "nout": 0}, "post": {"nin": 0, "nout": 0},
           "restored": {"nin": 0, "nout": 0}, "live2": {"nin": 0, "nout": 0}, "restored2": {"nin": 0, "nout": 0}, "wire": [], "cont_error": "", "raised": False, "target": spec["target"]}
    try:
        with watchdog(120):
            s = session.Session.__new__(session.Session)
            s.loop, s.scale, s.phase, s.hb, s.steps, s.raw = loop, 1, None, 30, [], []
            j = Journaler(jf)
            s.ep = Endpoint(loop, "A", "B", journaler=j, cls=RecConn)
            s.peer = PeerCodec("B", "A")
            for rev in spec["revs"]:
                s.apply(rev)
            conn = s.ep.conn
            ks = KillState(conn, spec["kill_at"])
            real_conn, real_cur = j.conn, j.cursor
            j.conn, j.cursor = ConnProxy(real_conn, ks), CurProxy(real_cur, ks)
            if s.ep.writer is not None:
                kw = KillWriter(s.ep.writer, ks)
                s.ep.writer = kw
                conn._socket_writer = kw
            rec["pre"] = {"nin": conn._session.next_num_in, "nout": conn._session.next_num_out}
            n0 = len(s.ep.sent)
            ks.armed = True
            try:
                if spec["kill_at"] >= 0:      # kill_at = -1: reference run, the endpoint is stopped right before the event
                    s.apply(spec["target"])
                rec["completed"] = not ks.dead
                rec["raised"] = bool(s.steps) and s.steps[-1]["out"]["exc"] != "none"
            except Killed:
                pass
            ks.armed = False
            rec["bounds"] = [{"nin": b["nin"], "nout": b["nout"], "nw": b["nw"]} for b in ks.bounds]
            rec["labels"] = [b["at"] for b in ks.bounds]
            rec["post"] = {"nin": conn._session.next_num_in, "nout": conn._session.next_num_out}
            wire = [dict(f, inc=1) for f in abs_frames(s.ep.sent)]
            # the old incarnation is gone: tasks cancelled, uncommitted journal work rolled back, connection closed
            ks.dead = True
            for tk in (conn._aio_task_socket_read, conn._aio_task_heartbeat):
                if tk is not None:
                    tk.cancel()
            try:
                loop.run_idle()
            except Killed:
                pass
            try:
                real_conn.rollback()
            except Exception:
                pass
            real_cur.close()
            real_conn.close()
            j.conn = j.cursor = _Closed()
            conn._journaler = None
            s.ep.j = None
            del j
            # new incarnation over the same file
            j2 = Journaler(jf)
            s2 = session.Session.__new__(session.Session)
            s2.loop, s2.scale, s2.phase, s2.hb, s2.steps, s2.raw = loop, 1, None, 30, [], []
            s2.ep = Endpoint(loop, "A", "B", journaler=j2, cls=RecConn)
            s2.peer = PeerCodec("B", "A")
            c2 = s2.ep.conn
            rec["restored"] = {"nin": c2._session.next_num_in, "nout": c2._session.next_num_out}
            try:
                for rev in spec.get("cont", []):
                    s2.apply(rev)
            except Exception as ex:
                rec["cont_error"] = type(ex).__name__ + ":" + str(ex)[:80]
            wire += [dict(f, inc=2) for f in abs_frames(s2.ep.sent)]
            rec["live2"] = {"nin": c2._session.next_num_in, "nout": c2._session.next_num_out}
            rec["wire"] = [{"seq": f["seq"], "sha": f["sha"], "inc": f["inc"], "kind": f["kind"]} for f in wire if not f["pd"] and f["kind"] != "SEQRESET"]
            j2.cursor.close()
            j2.conn.close()
            j2.conn = j2.cursor = _Closed()
            c2._journaler = None
            s2.ep.j = None
            del j2
            # the continuation is itself a completed history: what a third object would restore must be what the second held
            j3 = Journaler(jf)
            s3 = j3.create_or_load("B", "A")
            rec["restored2"] = {"nin": s3.next_num_in, "nout": s3.next_num_out}
            j3.cursor.close()
            j3.conn.close()
            j3.conn = j3.cursor = _Closed()
            del j3
    except (Exception, Livelock) as ex:
        rec["harness_error"] = type(ex).__name__ + ":" + str(ex)[:100]
    finally:
        try:
            loop.shutdown()
        except BaseException:
            pass
        import gc
        gc.collect()
        for suf in ("", "-journal"):
            if os.path.exists(jf + suf):
                os.remove(jf + suf)
    return rec
