"""Driver for ONE real connection against a scripted counterparty: concretises the
relative events of spec/Session1.tla against the live object (mirror of Resolve), applies
them, and records [ev, pre, out, post] steps for spec/SessionEval.tla."""
import os
import sys

from .net import (Livelock, watchdog, Endpoint, FIXMessage, FMsg, FTag, PeerCodec, VLoop, abs_frames, install_clock,
                  RecConn, Journaler)

SESSION_CFG = ("CONSTANTS\n KF_BackwardReset = TRUE\n KF_StoredInLag = %s\n KF_WriteBeforeJournal = %s\n")

MT = {"LOGON": FMsg.LOGON, "HB": FMsg.HEARTBEAT, "TR": FMsg.TESTREQUEST, "RR": FMsg.RESENDREQUEST,
      "SEQRESET": FMsg.SEQUENCERESET, "LOGOUT": FMsg.LOGOUT, "APP": FMsg.NEWORDERSINGLE}


def resolve(proj, rev, now):
    """Mirror of Session1!Resolve, against the projection of the real object."""
    t = rev["t"]
    if t == "frame":
        r = rev["f"]
        seq = proj["nin"] + r["rel"]
        newseq = 0
        if r["kind"] == "SEQRESET":
            newseq = seq + r["nv"] if r["nm"] == "rel" else proj["nin"] + r["nv"]
        b = e = 0
        if r["kind"] == "RR":
            b = r["bv"] if r["bm"] == "abs" else proj["nout"] + r["bv"]
            e = r["ev"] if r["em"] == "abs" else proj["nout"] + r["ev"]
        trid = r["trid"]
        if trid == "match":
            trid = "77" if proj["treq"] == 0 else str(proj["treq"])
        elif trid == "wrong":
            trid = "12345"
        elif trid == "wronghi":
            trid = str(proj["treq"] + 1)
        elif trid == "wrongtxt":
            trid = "abc"
        return {"t": "frame", "now": now,
                "f": {"kind": r["kind"], "seq": seq, "pd": r["pd"], "gf": r["gf"], "newseq": newseq, "b": b, "e": e,
                      "trid": trid, "pay": ("11=p%d" % seq) if r["kind"] == "APP" else "", "text": False,
                      "hdr": r["hdr"], "tail": r.get("tail", "")}}
    if t == "send":
        r = rev["m"]
        trid = r["trid"]
        if trid == "match":
            trid = "77" if proj["treq"] == 0 else str(proj["treq"])
        seq = 0 if r["seqm"] == "none" else proj["nout"] + r["seqv"]
        return {"t": "send", "up": not rev.get("faildrain", False), "m": {"kind": r["kind"], "seq": seq, "pd": r["pd"], "gf": r["gf"],
                                   "newseq": (proj["nout"] + r["seqv"] + 1) if r["kind"] == "SEQRESET" else 0,
                                   "b": 0, "e": 0, "trid": trid, "pay": r["pay"], "text": False}}
    return dict(rev)


def build_msg(m):
    msg = FIXMessage(MT[m["kind"]])
    if m["kind"] == "LOGON":
        msg[FTag.EncryptMethod] = "0"
        msg[FTag.HeartBtInt] = "30"
    if m["pay"]:
        for tok in m["pay"].split("|"):
            k, v = tok.split("=", 1)
            msg[k] = "\ud800" if v == "BADENC" else v
    if m.get("pdn"):
        # PossDupFlag spelled out as "N": an ordinary first transmission
        msg[FTag.PossDupFlag] = "N"
    if m.get("ost0"):
        # the application itself supplies OrigSendingTime (a PossResend of an earlier attempt)
        msg[FTag.OrigSendingTime] = "20200101-00:00:00.000"
    if m["seq"]:
        msg[FTag.MsgSeqNum] = m["seq"]
    if m["pd"]:
        msg[FTag.PossDupFlag] = "Y"
    if m["gf"]:
        msg[FTag.GapFillFlag] = "Y"
    if m["kind"] == "SEQRESET":
        msg[FTag.NewSeqNo] = m["newseq"]
    if m["trid"]:
        msg[FTag.TestReqID] = m["trid"]
    if m["kind"] == "RR":
        msg[FTag.BeginSeqNo] = m["b"]
        msg[FTag.EndSeqNo] = m["e"]
    return msg


def proj_int(ep, scale=1):
    p = ep.project()
    p["last"] = int(round(p["last"] * scale))
    return p


def out_of(ep, exc="none"):
    wrote, deliv, cb, _ = ep.take()
    fr = []
    for f in abs_frames(wrote):
        fr.append({"kind": f["kind"], "seq": f["seq"], "pd": f["pd"], "gf": f["gf"], "newseq": f["newseq"],
                   "b": f["b"], "e": f["e"], "trid": f["trid"], "pay": f["pay"], "text": bool(f["text"]),
                   "sha": f["sha"], "ost": f["ost"], "st": f["st"]})
    return {"wrote": fr, "deliv": deliv, "cb": cb, "exc": exc}, wrote


class Session:
    """One recording endpoint + its scripted peer."""

    def __init__(self, declined=(), hb=30, nin=1, nout=1, cls=RecConn, sender="A", target="B", scale=1, phase=0, filej=False):
        self.loop = VLoop()
        install_clock(self.loop)
        self.scale = scale          # recorded times are in units of 1/scale second
        self.phase = None           # wake-up phase of the heartbeat task (set when the tasks start)
        if phase:
            self.loop.advance(phase / scale)
        self.tmpdir = None
        if filej:
            # a journal file; the projection reads it through a second connection, i.e. what is stored durably
            import tempfile
            from . import tlc as _t
            os.makedirs(os.path.join(_t.VERIF, ".work"), exist_ok=True)
            self.tmpdir = tempfile.mkdtemp(prefix="sessj_", dir=os.path.join(_t.VERIF, ".work"))
            j = Journaler(os.path.join(self.tmpdir, "j.db"))
        else:
            j = Journaler()
        if (nin, nout) != (1, 1):
            s = j.create_or_load(target, sender)
            j.set_seq_num(s, next_num_out=nout, next_num_in=nin)
        self.ep = Endpoint(self.loop, sender, target, journaler=j, cls=cls, hb=hb)
        if self.tmpdir:
            self.ep.jpath = os.path.join(self.tmpdir, "j.db")
        dec = set(declined)
        if dec:
            self.ep.conn.replay_filter = lambda m: ("11=" + m.get(FTag.ClOrdID, "")) not in dec
        self.peer = PeerCodec(target, sender)
        self.steps = []
        self.raw = []     # every frame handed to the transport, as bytes (for C02)
        self.hb = hb

    def apply(self, rev):
        ep = self.ep
        pre = proj_int(ep, self.scale)
        ev = resolve(pre, rev, int(round(self.loop.time() * self.scale)))
        exc = "none"
        t = ev["t"]
        if t == "attach":
            if self.phase is None:
                self.phase = int(round(self.loop.time() * self.scale)) % self.scale
            ep.attach()
            self.loop.advance(1.0)   # the reader task polls for a new socket once per second
            ev = dict(ev, now=int(round(self.loop.time() * self.scale)))
        elif t == "frame":
            f = ev["f"]
            if ep.reader is not None and ep.conn._socket_reader is ep.reader and not ep.reader._eof and ep.reader.exception() is None:
                data = self.peer.frame(f["kind"], f["seq"], pd=f["pd"], gf=f["gf"],
                                       newseq=f["newseq"] if f["kind"] == "SEQRESET" else None,
                                       b=f["b"], e=f["e"], trid=f["trid"] or None,
                                       pay=f["pay"][3:] if f["pay"] else None, hdr=f["hdr"])
                if f.get("tail") == "logon":     # a well-formed Logon numbered as expected, in the same read
                    data += self.peer.frame("LOGON", pre["nin"])
                ep.feed(data)
        elif t == "send":
            if not ev["up"] and ep.writer is not None:
                ep.writer.fail_drain = ConnectionResetError
            try:
                exc = ep.send(build_msg(dict(ev["m"], ost0=bool(rev["m"].get("ost0")), pdn=bool(rev["m"].get("pdn")))))
            finally:
                if ep.writer is not None:
                    ep.writer.fail_drain = None
            if exc == "ok":
                exc = "none"
        elif t == "eof":
            ep.eof(ev.get("how", "eof"))
        elif t == "adv":
            fd = bool(rev.get("faildrain")) and ep.writer is not None
            if fd:
                ep.writer.fail_drain = ConnectionResetError
            try:
                self.loop.advance(1.0 / self.scale)
            finally:
                if fd:
                    ep.writer.fail_drain = None
            now = int(round(self.loop.time() * self.scale))
            ev = {"t": "adv", "now": now, "wake": now % self.scale == self.phase, "H": self.hb, "S": self.scale}
            if fd:
                ev["faildrain"] = True
        elif t == "tick":
            self.loop.advance(ev["dt"])
            ev = dict(ev, now=int(self.loop.time()), H=self.hb)
        if "now" not in ev:
            ev = dict(ev, now=int(round(self.loop.time() * self.scale)))
        out, raw = out_of(ep, exc)
        self.raw.extend(raw)
        post = proj_int(ep, self.scale)
        self.steps.append({"ev": ev, "pre": pre, "out": out, "post": post})
        return self.steps[-1]

    def close(self):
        try:
            self.loop.shutdown()
        except Exception:
            pass
        if self.tmpdir:
            import shutil
            shutil.rmtree(self.tmpdir, ignore_errors=True)


def run_trace(spec):
    """spec = {id, revs, declined?, hb?, nin?, nout?}  ->  trace record for SessionEval."""
    from .net import RecClient, RecServer
    cls = {"server": RecServer, "client": RecClient}.get(spec.get("cls"), RecConn)     # the subclasses fix the role at construction
    s = Session(declined=spec.get("declined", ()), hb=spec.get("hb", 30), nin=spec.get("nin", 1), nout=spec.get("nout", 1),
                scale=spec.get("scale", 1), phase=spec.get("phase", 0), cls=cls, filej=bool(spec.get("filej")))
    err = None
    try:
        for rev in spec["revs"]:
            with watchdog(spec.get("watchdog", 30)):      # per event: the budget must not depend on the length of the trace
                s.apply(rev)
    except (Exception, Livelock) as ex:  # a harness-level failure (e.g. livelock) is reported, not hidden
        err = "%s: %s" % (type(ex).__name__, ex)
    finally:
        s.close()
    rec = {"id": spec["id"], "declined": list(spec.get("declined", ())), "steps": s.steps,
           "H": spec.get("hb", 30), "S": spec.get("scale", 1)}
    if err:
        rec["harness_error"] = err
    if spec.get("keep_raw"):
        rec["raw"] = [b.decode("latin-1") for b in s.raw]
    return rec
