"""Thin runner around TLC: model checking, simulation, transition dumps and batch
evaluation of recorded implementation traces by a TLA+ evaluator module.

Machinery failures raise MachineryError (the CLI turns that into exit status 2, never 1).
"""
import json
import os
import re
import shutil
import subprocess
import time
from concurrent.futures import ThreadPoolExecutor

VERIF = os.path.dirname(os.path.dirname(os.path.abspath(__file__)))
SPEC = os.path.join(VERIF, "spec")
JAR = "/opt/veriftools/tla/tla2tools.jar:/opt/veriftools/tla/CommunityModules-deps.jar"


class MachineryError(Exception):
    pass


def _java(args, cwd, env=None, timeout=600, heap="2g"):
    e = dict(os.environ)
    e.pop("JAVA_TOOL_OPTIONS", None)
    if env:
        e.update({k: str(v) for k, v in env.items()})
    cmd = ["timeout", str(int(timeout)), "java", "-XX:+UseParallelGC", "-Xss512m", "-Xmx" + heap,
           "-cp", JAR, "tlc2.TLC"] + args
    t0 = time.time()
    p = subprocess.run(cmd, cwd=cwd, env=e, stdout=subprocess.PIPE, stderr=subprocess.STDOUT)
    out = p.stdout.decode("utf-8", "replace")
    return p.returncode, out, time.time() - t0


_RE_STATES = re.compile(r"(\d+) states generated, (\d+) distinct states found")
_RE_DEPTH = re.compile(r"depth of the complete state graph search is (\d+)")


def prepare(work, module, cfg_text, extra_modules=()):
    """Copy spec/*.tla into work dir, write <module>.cfg with cfg_text."""
    os.makedirs(work, exist_ok=True)
    for f in os.listdir(SPEC):
        if f.endswith(".tla"):
            shutil.copy(os.path.join(SPEC, f), os.path.join(work, f))
    with open(os.path.join(work, module + ".cfg"), "w") as fh:
        fh.write(cfg_text)


def model_check(work, module, cfg_text, env=None, workers=16, timeout=900, heap="6g",
                expect_violation=False, extra_args=(), tag=None):
    """Run TLC exhaustively. Returns dict(states, distinct, depth, violated, out, wall)."""
    prepare(work, module, cfg_text)
    meta = os.path.join(work, "meta_%s" % (tag or module))
    shutil.rmtree(meta, ignore_errors=True)
    args = ["-workers", str(workers), "-metadir", meta, "-noGenerateSpecTE",
            "-config", module + ".cfg"] + list(extra_args) + [module + ".tla"]
    rc, out, wall = _java(args, work, env, timeout, heap)
    shutil.rmtree(meta, ignore_errors=True)
    m = _RE_STATES.findall(out)
    d = _RE_DEPTH.findall(out)
    violated = None
    if "is violated" in out or "Invariant" in out and "violated" in out:
        mm = re.search(r"(?:Invariant|property|Action property) (\S+) is violated", out)
        violated = mm.group(1) if mm else "?"
    if "Temporal properties were violated" in out:
        violated = violated or "temporal"
    ok_finish = "Model checking completed" in out or "Finished in" in out
    if rc == 124:
        raise MachineryError("TLC timeout (%ss) on %s" % (timeout, module))
    if not m and not violated:
        raise MachineryError("TLC produced no state count on %s:\n%s" % (module, out[-3000:]))
    if violated is None and (rc != 0 or not ok_finish):
        raise MachineryError("TLC failed (rc=%s) on %s:\n%s" % (rc, module, out[-3000:]))
    if violated is not None and not expect_violation:
        raise MachineryError("design model %s violates %s (self-check of the spec failed):\n%s"
                             % (module, violated, out[-4000:]))
    st = (int(m[-1][0]), int(m[-1][1])) if m else (0, 0)
    return dict(generated=st[0], distinct=st[1], depth=int(d[-1]) if d else 0,
                violated=violated, out=out, wall=wall)


def parse_printed(out, marker):
    """Extract JSON payloads printed as <<"MARKER", "json...">> by PrintT(<<marker, ToJson(x)>>)."""
    res = []
    pref = '<<"%s", "' % marker
    for line in out.splitlines():
        i = line.find(pref)
        if i < 0:
            continue
        s = line[i + len(pref):]
        j = s.rfind('">>')
        if j < 0:
            continue
        body = s[:j]
        # TLC prints the TLA+ string with \" and \\ escapes
        body = body.replace('\\"', '"').replace("\\\\", "\\")
        try:
            res.append(json.loads(body))
        except Exception as ex:  # pragma: no cover
            raise MachineryError("unparsable dump line: %r (%s)" % (line[:200], ex))
    return res


def dump_edges(work, module, cfg_text, env=None, marker="EDGE", timeout=900, heap="6g", tag=None):
    """Exhaustive run with a PrintT action constraint (single worker so lines do not interleave)."""
    r = model_check(work, module, cfg_text, env=env, workers=1, timeout=timeout, heap=heap, tag=tag)
    r["edges"] = parse_printed(r["out"], marker)
    return r


def evaluate(work, module, records, shard_size=2000, jobs=8, timeout=900, env=None, heap="3g", cfg_text=""):
    """Evaluate records (list of JSON-able dicts) with evaluator module `module`.

    The module must define, with EXTENDS Json, IOUtils:
       Traces == JsonDeserialize(IOEnv.TRACE_FILE)
       ASSUME JsonSerialize(IOEnv.OUT_FILE, <sequence of verdict records, same order>)
    Returns the list of verdict records (same order as records).
    """
    if not records:
        return []
    import gc
    gc.collect()       # free leftover SQLite objects in this thread, not in the evaluator threads
    prepare(work, module, cfg_text)
    shards = [records[i:i + shard_size] for i in range(0, len(records), shard_size)]

    def run(k):
        tf = os.path.join(work, "%s_in_%d.json" % (module, k))
        of = os.path.join(work, "%s_out_%d.json" % (module, k))
        with open(tf, "w") as fh:
            json.dump(shards[k], fh)
        meta = os.path.join(work, "meta_eval_%s_%d" % (module, k))
        e = {"TRACE_FILE": tf, "OUT_FILE": of}
        if env:
            e.update(env)
        rc, out, wall = _java(["-workers", "1", "-metadir", meta, "-noGenerateSpecTE",
                               "-config", module + ".cfg", module + ".tla"], work, e, timeout, heap)
        shutil.rmtree(meta, ignore_errors=True)
        if rc != 0 or not os.path.exists(of):
            raise MachineryError("evaluator %s failed on shard %d (rc=%s):\n%s" % (module, k, rc, out[-3000:]))
        with open(of) as fh:
            v = json.load(fh)
        os.remove(tf)
        os.remove(of)
        if len(v) != len(shards[k]):
            raise MachineryError("evaluator %s returned %d verdicts for %d records" % (module, len(v), len(shards[k])))
        return v

    with ThreadPoolExecutor(max_workers=jobs) as ex:
        parts = list(ex.map(run, range(len(shards))))
    res = []
    for p in parts:
        res.extend(p)
    return res


def simulate(work, module, cfg_text, num, depth, seed, env=None, timeout=600, marker="BEH", heap="3g"):
    """Random behaviours; the spec prints them itself via PrintT(<<marker, ToJson(..)>>)."""
    prepare(work, module, cfg_text)
    meta = os.path.join(work, "meta_sim_%s" % module)
    shutil.rmtree(meta, ignore_errors=True)
    args = ["-workers", "1", "-metadir", meta, "-noGenerateSpecTE", "-config", module + ".cfg",
            "-simulate", "num=%d" % num, "-depth", str(depth), "-seed", str(seed), module + ".tla"]
    rc, out, wall = _java(args, work, env, timeout, heap)
    shutil.rmtree(meta, ignore_errors=True)
    if rc == 124:
        raise MachineryError("TLC simulate timeout on %s" % module)
    if rc != 0 and "violated" not in out:
        raise MachineryError("TLC simulate failed (rc=%s) on %s:\n%s" % (rc, module, out[-3000:]))
    return dict(out=out, wall=wall, items=parse_printed(out, marker))
