"""Independent translator FIX XML dictionary -> JSON constant for spec/SchemaValid.tla.
Does not use asyncfix.protocol.schema."""
import xml.etree.ElementTree as ET


def translate(path):
    root = ET.parse(path).getroot()
    fields, name2tag = {}, {}
    for f in root.find("fields"):
        tag = f.attrib["number"]
        fields[tag] = {"name": f.attrib["name"], "type": f.attrib["type"].upper(), "enums": [v.attrib["enum"] for v in f if v.tag == "value"]}
        name2tag[f.attrib["name"]] = tag
    comps = {c.attrib["name"]: c for c in (root.find("components") if root.find("components") is not None else [])}

    def expand(el, creq):
        out = []
        for ch in el:
            req = ch.attrib.get("required", "N").upper() == "Y"
            if ch.tag == "field":
                out.append({"k": "f", "tag": name2tag[ch.attrib["name"]], "req": req, "creq": creq, "members": []})
            elif ch.tag == "group":
                out.append({"k": "g", "tag": name2tag[ch.attrib["name"]], "req": req, "creq": creq, "members": expand(ch, True)})
            elif ch.tag == "component":
                out.extend(expand(comps[ch.attrib["name"]], creq and req))
        # a tag may be reachable twice through components: keep the first occurrence
        seen, res = set(), []
        for m in out:
            if m["tag"] not in seen:
                seen.add(m["tag"])
                res.append(m)
        return res

    messages = {}
    for m in root.find("messages"):
        messages[m.attrib["msgtype"]] = {"name": m.attrib["name"], "members": expand(m, True)}
    # header members: fields and repeating groups (NoHops); the validator skips all of them in the body
    header = [name2tag[f.attrib["name"]] for f in root.find("header") if f.tag in ("field", "group")]
    trailer = [name2tag[f.attrib["name"]] for f in root.find("trailer") if f.tag == "field"] if root.find("trailer") is not None else []
    return {"fields": fields, "header": header, "trailer": trailer, "messages": messages, "soh": "\x01"}
