"""Shared exploration for the single-endpoint session properties (C04, C05, C06, C11):
TLC explores spec/Session1MC.tla, the harness replays a shortest relative-event path to
every distinct model state followed by every event of the alphabet on a real connection,
adds seeded random walks, and spec/SessionEval.tla evaluates every clause on every step."""
import hashlib
import json
import os
import random

from . import tlc
from .par import pmap
from . import session

CLAUSES = {"C04": ["D1", "D2", "D3", "D4", "D5", "DH"], "C05": ["N1", "N2", "N3", "N4", "N5"],
           "C11": ["G1", "G2", "G3", "G4", "G5"], "C06": ["R1", "R2", "R3", "R4", "R5", "R6"]}
KF = {"KF_StoredInLag": "FALSE", "KF_WriteBeforeJournal": "FALSE"}
ALLPROPS = "D1 D2 D3 D4 D5 N1 N2 N3 N4 N5 G1 G2 G3 G4 G5 R".split()


def eval_cfg():
    return session.SESSION_CFG % (KF["KF_StoredInLag"], KF["KF_WriteBeforeJournal"])


def mc_cfg(depth, dump, props=True, maxn=14, alpha=False):
    s = ("SPECIFICATION Spec\nCONSTANTS\n KF_BackwardReset = TRUE\n KF_StoredInLag = %s\n KF_WriteBeforeJournal = %s\n"
         " Depth = %d\n MaxN = %d\n Dump = %s\n Declined = {\"11=b\"}\nVIEW View\nCONSTRAINT Bound\n"
         % (KF["KF_StoredInLag"], KF["KF_WriteBeforeJournal"], depth, maxn, "TRUE" if dump else "FALSE"))
    if props:
        s += "".join("PROPERTY A_%s\n" % p for p in ALLPROPS)
    if dump:
        s += "INVARIANT Inv_DumpState\n"
    return s + "CHECK_DEADLOCK FALSE\n"


def alphabet(ctx):
    w = ctx.sub("alpha")
    tlc.prepare(w, "Session1MC", "")
    with open(os.path.join(w, "Alpha.tla"), "w") as fh:
        fh.write("---- MODULE Alpha ----\nEXTENDS Session1MC\nASSUME AlphabetDump\n====\n")
    cfg = ("CONSTANTS\n KF_BackwardReset = TRUE\n KF_StoredInLag = TRUE\n KF_WriteBeforeJournal = TRUE\n Depth = 1\n MaxN = 9\n"
           " Dump = FALSE\n Declined = {}\n")
    with open(os.path.join(w, "Alpha.cfg"), "w") as fh:
        fh.write(cfg)
    rc, out, _ = tlc._java(["-workers", "1", "-metadir", os.path.join(w, "m"), "-config", "Alpha.cfg", "Alpha.tla"], w, None, 120, "1g")
    items = tlc.parse_printed(out, "ALPHA")
    if not items:
        raise tlc.MachineryError("could not obtain the event alphabet from TLC:\n" + out[-2000:])
    return sorted(items[0], key=lambda e: json.dumps(e, sort_keys=True))


def random_walk(rng, alpha, tid, n):
    frames = [e for e in alpha if e["t"] == "frame"]
    sends = [e for e in alpha if e["t"] == "send"]
    revs = [{"t": "attach"}]
    # mostly start with a logon in one of the two roles
    r = rng.random()
    logon_in = next(e for e in frames if e["f"]["kind"] == "LOGON" and e["f"]["rel"] == 0 and e["f"]["hdr"] == "ok")
    logon_out = next(e for e in sends if e["m"]["kind"] == "LOGON")
    if r < 0.45:
        revs.append(logon_in)
    elif r < 0.9:
        revs += [logon_out, logon_in]
    for _ in range(n):
        x = rng.random()
        if x < 0.62:
            revs.append(rng.choice(frames))
        elif x < 0.92:
            revs.append(rng.choice(sends))
        elif x < 0.96:
            revs.append({"t": "eof"})
        else:
            revs += [{"t": "eof"}, {"t": "attach"}, rng.choice([logon_in, logon_out])]
    spec = {"id": tid, "revs": revs, "declined": ["11=b"] if rng.random() < 0.5 else []}
    if rng.random() < 0.3:
        spec["nin"], spec["nout"] = rng.choice([(1, 1), (5, 9), (1000000, 1000000), (2 ** 31 - 200, 2 ** 31 - 300)])
    return spec


def evaluate(ctx, recs, name="eval"):
    n = len(recs)
    return tlc.evaluate(ctx.sub(name), "SessionEval", recs, shard_size=max(50, min(1500, n // 16 + 1)), jobs=16,
                        cfg_text=eval_cfg(), timeout=1800)


def base_specs(ctx, out):
    """TLC design check + trace specs derived from the model graph + random walks."""
    q = ctx.quick
    depth_mc = 3 if q else 4
    r = tlc.model_check(ctx.sub("mc"), "Session1MC", mc_cfg(depth_mc, False), timeout=2400, heap="10g")
    out.add_tlc(r)
    ctx.log("design model Session1 (depth %d): %d distinct states, %d transitions, all C04/C05/C06/C11 clauses hold on the model"
            % (depth_mc, r["distinct"], r["generated"]))
    alpha = alphabet(ctx)
    depth_dump = 1 if q else 2
    d = tlc.dump_edges(ctx.sub("dump"), "Session1MC", mc_cfg(depth_dump, True, props=False), marker="STATE", timeout=2400)
    paths = d["edges"]
    ctx.log("replay instance (depth %d): %d distinct states x %d events" % (depth_dump, len(paths), len(alpha)))
    specs = []
    for si, p in enumerate(paths):
        for ei, e in enumerate(alpha):
            if e["t"] == "attach":
                continue
            specs.append({"id": "g%d.%d" % (si, ei), "revs": list(p) + [e], "declined": ["11=b"]})
    # the same events on the two subclasses, whose role is fixed at construction (client: INITIATOR, dummy server: ACCEPTOR)
    for si, p in enumerate(paths):
        if len(p) > (3 if q else 5):
            continue
        for ei, e in enumerate(alpha):
            if e["t"] == "attach":
                continue
            for cl in ("server", "client"):
                specs.append({"id": "g%d.%d.%s" % (si, ei, cl), "revs": list(p) + [e], "declined": ["11=b"], "cls": cl})
    ngraph = len(specs)
    rng = random.Random(ctx.seed * 1009 + 4)
    nr = 1500 if q else 25000
    for i in range(nr):
        sp = random_walk(rng, alpha, "w%d" % i, rng.randint(4, 40))
        if i % 3:
            sp["cls"] = ("server", "client")[i % 3 - 1]
        specs.append(sp)
    out.extra.update({"model_states_replayed": len(paths), "alphabet": len(alpha), "graph_traces": ngraph,
                      "random_walks": nr, "bounds": {"design_depth": depth_mc, "replay_depth": depth_dump, "MaxN": 14}})
    return specs


def tree_hash():
    h = hashlib.sha1()
    for root in (__import__("harness").REPO + "/asyncfix", os.path.join(tlc.VERIF, "spec"), os.path.join(tlc.VERIF, "harness")):
        for dp, dn, fn in sorted(os.walk(root)):
            dn.sort()
            for f in sorted(fn):
                if f.endswith((".py", ".tla", ".xml")):
                    h.update(f.encode())
                    with open(os.path.join(dp, f), "rb") as fh:
                        h.update(fh.read())
    return h.hexdigest()[:16]


def collect(ctx, out, prop, recs, verd, inputs):
    """Turn evaluator verdicts into failures of property `prop` (its own clauses only)."""
    mine = set(CLAUSES[prop])
    for rec, v, inp in zip(recs, verd, inputs):
        out.traces += 1
        if rec.get("harness_error"):
            out.failures.append({"clause": "HARNESS", "triggers": [], "input": inp,
                                 "detail": {"harness_error": rec["harness_error"], "after_steps": len(rec["steps"])}, "trace": None})
            continue
        trig = [(t["step"], t["name"]) for t in v["trigs"]]
        first_trig = min([s for s, _ in trig], default=None)
        fl = [f for f in v["fails"] if f["clause"] in mine]
        # monitor hits: how often each property's clauses applied
        for a in v["applic"]:
            out.clause_hits[a + "_applicable_steps"] = out.clause_hits.get(a + "_applicable_steps", 0) + 1
        out.clause_hits["steps"] = out.clause_hits.get("steps", 0) + len(rec["steps"])
        if v["drift"]:
            out.drift += len(v["drift"])
            if len(out.drift_samples) < 5:
                out.drift_samples.append({"trace": rec["id"], "drift": v["drift"][:3]})
        if not fl and not v["drift"]:
            out.traces_ok += 1
        seen = set()
        stop = None
        for f in sorted(fl, key=lambda x: x["step"]):
            if stop is not None and f["step"] > stop:
                break   # after the first failure explained by a trigger, the rest of the trace is outside the premises
            tn = [n for s, n in trig if s <= f["step"]]
            if tn and stop is None:
                stop = f["step"]
            if (f["clause"], bool(tn)) in seen:
                continue
            seen.add((f["clause"], bool(tn)))
            st = rec["steps"][f["step"] - 1]
            out.failures.append({"clause": f["clause"], "triggers": tn, "input": inp,
                                 "detail": {"step": f["step"], "ev": st["ev"], "pre": _short(st["pre"]), "out": st["out"],
                                            "post": _short(st["post"])},
                                 "trace": {"id": rec["id"], "steps": len(rec["steps"])}})


def _short(p):
    return {k: v for k, v in p.items() if k not in ("jout", "jin")} | {"jout": [(r["seq"], r["kind"], r["pd"]) for r in p.get("jout", [])], "jin": p.get("jin")}


def run_property(ctx, out, prop, extra_specs=()):
    specs = base_specs(ctx, out) + list(extra_specs)
    ctx.log("executing %d traces on a real connection" % len(specs))
    recs = pmap(session.run_trace, specs)
    nsteps = sum(len(r["steps"]) for r in recs)
    # vacuity guard: the random walks must really log on (a harness that picks a broken Logon would make them idle)
    walks = [r for r in recs if r["id"].startswith("w")]
    active = sum(1 for r in walks if any(st["post"]["cs"] == "ACTIVE" for st in r["steps"]))
    out.extra["random_walks_reaching_ACTIVE"] = active
    if walks and active < 0.5 * len(walks):
        raise tlc.MachineryError("vacuity: only %d of %d random walks reached ACTIVE" % (active, len(walks)))
    ctx.log("evaluating %d steps with TLC (SessionEval); %d of %d random walks reach ACTIVE" % (nsteps, active, len(walks)))
    verd = evaluate(ctx, recs)
    collect(ctx, out, prop, recs, verd, specs)
    out.samples = [{"id": r["id"], "events": [s["ev"] for s in r["steps"]][:12]} for r in (recs[len(recs) // 3], recs[-1])]
    out.exhaustive = True
    out.assumptions += ["events are whole frames (chunking is C03/C10)", "transport stays up in this model (faults are C07/C09)",
                        "virtual clock; in-memory journal"]
    return recs, verd


def replay_one(ctx, out, prop, inp):
    rec = session.run_trace(inp)
    verd = evaluate(ctx, [rec])
    collect(ctx, out, prop, [rec], verd, [inp])
    out.states = out.transitions = 1
    out.samples = [{"id": rec["id"], "events": [s["ev"] for s in rec["steps"]]}]
