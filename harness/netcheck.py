"""Shared driver for the two-endpoint properties C07 and C09 (spec/Net.tla, spec/NetEval.tla)."""
import os
import random
import shutil

from . import tlc, netrun, sessrun
from .par import pmap

CLAUSES = {"C07": ["Safe", "Quiescence", "Stays"], "C09": ["T1", "T2", "T4", "Safe", "Quiescence", "Stays"]}


def net_cfg(ms, mb, mr, depth, dump, props=True, lag="FALSE"):
    s = ("SPECIFICATION Spec\nCONSTANTS\n KF_BackwardReset = TRUE\n KF_StoredInLag = %s\n KF_WriteBeforeJournal = FALSE\n"
         " MaxSends = %d\n MaxBreaks = %d\n MaxRestarts = %d\n Depth = %d\n Dump = %s\nVIEW View\nCONSTRAINT Bound\n"
         % (lag, ms, mb, mr, depth, "TRUE" if dump else "FALSE"))
    if props:
        s += "INVARIANT Safe\nINVARIANT Quiescence\nINVARIANT T2\nINVARIANT T4\nPROPERTY T1\nPROPERTY Stays\n"
    if dump:
        s += "INVARIANT Inv_DumpState\n"
    return s + "CHECK_DEADLOCK FALSE\n"


def settle(n=14):
    """Suffix that lets the system reach quiescence whatever state it is in (inapplicable events are skipped)."""
    evs = [{"t": "deliver", "dir": d} for d in ("IA", "AI") * 3]
    evs += [{"t": "eof", "e": "I"}, {"t": "eof", "e": "A"}, {"t": "reconnect"}]
    evs += [{"t": "deliver", "dir": d} for d in ("IA", "AI") * n]
    evs += [{"t": "eof", "e": "I"}, {"t": "eof", "e": "A"}, {"t": "reconnect"}]
    evs += [{"t": "deliver", "dir": d} for d in ("IA", "AI") * n]
    return evs


def recovery_windows(depth):
    """Both directions lose an application frame in one break; after reconnect + Logon every interleaving of the next
    `depth` deliveries with at most one further application send at any position (the recovery of one side overlaps
    the recovery of the other and new traffic)."""
    import itertools
    pre = [{"t": "reconnect"}, {"t": "deliver", "dir": "IA"}, {"t": "deliver", "dir": "AI"},
           {"t": "send", "e": "I", "pay": "11=i1"}, {"t": "send", "e": "A", "pay": "11=a1"},
           {"t": "break", "ki": 0, "ka": 0}, {"t": "eof", "e": "I"}, {"t": "eof", "e": "A"}, {"t": "reconnect"}]
    out = []
    for dirs in itertools.product(("IA", "AI"), repeat=depth):
        base = [{"t": "deliver", "dir": d} for d in dirs]
        out.append(pre + base + settle())
        for pos in range(depth):
            for e in ("I", "A"):
                out.append(pre + base[:pos] + [{"t": "send", "e": e, "pay": "11=%s2" % e.lower()}] + base[pos:] + settle())
    return out


def random_walk(rng, n, restarts):
    evs = [{"t": "reconnect"}]
    cnt = {"I": 0, "A": 0}
    for _ in range(n):
        x = rng.random()
        if x < 0.45:
            evs.append({"t": "deliver", "dir": rng.choice(["IA", "AI"])})
        elif x < 0.65:
            e = rng.choice(["I", "A"])
            cnt[e] += 1
            # every third payload carries single-byte text outside ASCII: what is lost and replayed must arrive as it was sent
            evs.append({"t": "send", "e": e, "pay": ("11=%s\xe9\xff%d" if cnt[e] % 3 == 0 else "11=%s%d") % (e.lower(), cnt[e])})
        elif x < 0.73:
            ev = {"t": "break", "ki": rng.randint(0, 3), "ka": rng.randint(0, 3)}
            if rng.random() < 0.4:
                ev["mid"] = rng.choice(["IA", "AI"])
                ev["cut"] = rng.choice([1, 2, 5, 6, 7, 12, 20, 40, 70])
            evs.append(ev)
        elif x < 0.85:
            evs.append({"t": "eof", "e": rng.choice(["I", "A"]), "how": rng.choice(["eof", "eof", "reset", "oserror"])})
        elif x < 0.95:
            evs.append({"t": "reconnect"})
        elif restarts:
            evs.append({"t": "restart", "e": rng.choice(["I", "A"])})
    return evs + settle()


def scratch(ctx, name):
    base = "/dev/shm" if os.path.isdir("/dev/shm") and os.access("/dev/shm", os.W_OK) else ctx.work
    d = os.path.join(base, "verif_%s_%d" % (name, os.getpid()))
    os.makedirs(d, exist_ok=True)
    return d


def collect(ctx, out, prop, recs, verd, specs):
    mine = set(CLAUSES[prop])
    for rec, v, sp in zip(recs, verd, specs):
        out.traces += 1
        if rec.get("harness_error"):
            out.failures.append({"clause": "HARNESS", "triggers": [], "input": _inp(sp),
                                 "detail": {"harness_error": rec["harness_error"], "after_steps": len(rec["steps"])}, "trace": None})
            continue
        out.clause_hits["steps"] = out.clause_hits.get("steps", 0) + len(rec["steps"])
        out.clause_hits["quiescent_states_checked"] = out.clause_hits.get("quiescent_states_checked", 0) + v["nquiet"]
        out.clause_hits["traces_ending_quiescent"] = out.clause_hits.get("traces_ending_quiescent", 0) + (1 if v["quiet"] else 0)
        out.clause_hits["messages_delivered"] = out.clause_hits.get("messages_delivered", 0) + v["ndelivered"]
        out.clause_hits["restarts"] = out.clause_hits.get("restarts", 0) + sum(
            1 for s in rec["steps"] if s["ev"]["t"] == "restart" and not s["ev"].get("skipped"))
        if v["drift"]:
            out.drift += len(v["drift"])
            if len(out.drift_samples) < 5:
                out.drift_samples.append({"trace": rec["id"], "drift": v["drift"][:3]})
        fl = [f for f in v["fails"] if f["clause"] in mine]
        if not fl and not v["drift"]:
            out.traces_ok += 1
        seen = set()
        for f in sorted(fl, key=lambda x: x["step"]):
            if f["clause"] in seen:
                continue
            seen.add(f["clause"])
            st = rec["steps"][f["step"] - 1]
            out.failures.append({"clause": f["clause"], "triggers": [], "input": _inp(sp),
                                 "detail": {"step": f["step"], "ev": st["ev"],
                                            "post": {k: (sessrun._short(v2) if isinstance(v2, dict) else v2) for k, v2 in st["post"].items()},
                                            "events": [s["ev"] for s in rec["steps"][:f["step"]]]},
                                 "trace": {"id": rec["id"], "steps": len(rec["steps"])}})


def _inp(sp):
    return {"id": sp["id"], "evs": sp["evs"], "files": bool(sp.get("jdir"))}


def run(ctx, out, prop):
    q = ctx.quick
    rest = prop == "C09"
    # (1) design
    if rest:
        big = (1, 1, 1, 20) if q else (2, 1, 1, 26)
        small = (1, 1, 1, 12) if q else (1, 1, 1, 16)
    else:
        big = (1, 2, 0, 20) if q else (2, 2, 0, 24)
        small = (1, 1, 0, 12) if q else (1, 2, 0, 16)
    # one worker: the VIEW hides the depth counter, so only a strict breadth-first search explores the same set every run
    r = tlc.model_check(ctx.sub("mc"), "Net", net_cfg(*big, dump=False), timeout=6000, heap="12g", workers=1)
    out.add_tlc(r)
    ctx.log("design model Net (sends<=%d breaks<=%d restarts<=%d depth %d): %d distinct states, %d transitions; Safe, Quiescence, T1, T2, T4 hold"
            % (big + (r["distinct"], r["generated"])))
    if rest:   # vacuity self-check: with the stored inbound counter lagging, TLC must find the T1 violation
        r0 = tlc.model_check(ctx.sub("mc0"), "Net", net_cfg(1, 1, 1, 20, dump=False, lag="TRUE"), timeout=900, expect_violation=True, workers=1)
        if not r0["violated"]:
            raise tlc.MachineryError("Net with KF_StoredInLag should violate T1 (vacuity self-check)")
    d = tlc.dump_edges(ctx.sub("dump"), "Net", net_cfg(*small, dump=True, props=False), marker="STATE", timeout=3000)
    paths = d["edges"]
    ctx.log("replay instance %s: %d distinct states" % (small, len(paths)))
    jdir = scratch(ctx, prop.lower()) if rest else None
    specs = []
    try:
        for i, p in enumerate(paths):
            specs.append({"id": "g%d" % i, "evs": list(p) + settle(), "jdir": jdir})
        rng = random.Random(ctx.seed * 7 + (9 if rest else 7))
        nr = 600 if q else 12000
        for i in range(nr):
            specs.append({"id": "w%d" % i, "evs": random_walk(rng, rng.randint(10, 120), rest), "jdir": jdir})
        if not rest:
            for i, evs in enumerate(recovery_windows(6 if q else 9)):
                specs.append({"id": "rw%d" % i, "evs": evs, "jdir": jdir})
        ctx.log("executing %d two-endpoint traces on real AsyncFIXClient/AsyncFIXDummyServer objects" % len(specs))
        recs = pmap(netrun.run_trace, specs)
    finally:
        if jdir:
            shutil.rmtree(jdir, ignore_errors=True)
    nsteps = sum(len(r["steps"]) for r in recs)
    ctx.log("evaluating %d steps with TLC (NetEval)" % nsteps)
    verd = tlc.evaluate(ctx.sub("eval"), "NetEval", recs, shard_size=max(20, min(400, len(recs) // 16 + 1)), jobs=16,
                        cfg_text=sessrun.eval_cfg(), timeout=2400)
    collect(ctx, out, prop, recs, verd, specs)
    out.samples = [{"id": r["id"], "events": [s["ev"] for s in r["steps"]][:25]} for r in (recs[len(paths) // 2], recs[-1])]
    out.exhaustive = True
    out.extra.update({"model_states_replayed": len(paths), "random_walks": nr,
                      "bounds": {"design(MaxSends,MaxBreaks,MaxRestarts,Depth)": list(big), "replay": list(small)}})
    out.assumptions += ["the link is FIFO and breaks at frame boundaries (plus mid-frame cuts in random walks); after a break writes vanish and drain raises ConnectionResetError",
                        "virtual clock; heartbeats are not part of these schedules (C12)",
                        "a send call that raised may or may not be delivered later; accepted sends must be delivered exactly once, in order"]


def replay(ctx, out, prop, inp):
    jdir = scratch(ctx, prop.lower()) if inp.get("files") else None
    try:
        sp = {"id": inp["id"], "evs": inp["evs"], "jdir": jdir}
        rec = netrun.run_trace(sp)
    finally:
        if jdir:
            shutil.rmtree(jdir, ignore_errors=True)
    verd = tlc.evaluate(ctx.sub("eval"), "NetEval", [rec], cfg_text=sessrun.eval_cfg())
    collect(ctx, out, prop, [rec], verd, [sp])
    out.states = out.transitions = 1
    out.samples = [{"id": rec["id"], "events": [s["ev"] for s in rec["steps"]][:40]}]
