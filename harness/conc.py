"""Controlled scheduler for property C14: every suspension point of the library (transport
drain with FIFO wake-up, and the awaited hooks should_replay / on_state_change / on_message /
on_logon) is a gate that only the driver opens; schedules of the REAL code are enumerated
exhaustively by stateless depth-first search (re-execution from the initial state)."""
import asyncio

from .net import FIXMessage, FMsg, FTag, abs_frames
from .session import Session, proj_int
from .props.c06 import RF, RS


class Sched:
    def __init__(self):
        self.active = False
        self.pending = []     # [order, label, kind, future]
        self.n = 0

    async def gate(self, kind):
        if not self.active:
            return
        t = asyncio.current_task()
        label = t.get_name() if t is not None else "?"
        fut = asyncio.get_event_loop().create_future()
        self.n += 1
        self.pending.append([self.n, label, kind, fut])
        await fut

    def options(self):
        self.pending = [p for p in self.pending if not p[3].done()]
        drains = [p for p in self.pending if p[2] == "drain"]
        opts = [p for p in self.pending if p[2] != "drain"]
        if drains:
            opts.append(min(drains, key=lambda p: p[0]))      # FIFO wake-up
        return sorted(opts, key=lambda p: (p[1], p[2], p[0]))


def run_schedule(cfg, prefix):
    """cfg = {apps: [names], hb: bool, rr: bool, frame: 'RR'|'TR'|'GAP'|None}; returns observation record."""
    s = Session(declined=cfg.get("declined", ()))
    sch = Sched()
    ep = s.ep
    conn = ep.conn
    try:
        pre = [{"t": "attach"}] if cfg.get("init") == "nce" else \
              [{"t": "attach"}, RF("LOGON", 0), RS("APP", "11=a"), RF("APP", 2)] if cfg.get("init") == "awaiting" else \
              [{"t": "attach"}, RF("LOGON", 0), RS("APP", "11=a"), RS("HB"), RS("APP", "11=b")]
        for rev in pre:
            s.apply(rev)
        first = conn._session.next_num_out
        mark = len(ep.sent)
        ep.take()
        ep.writer.gate = lambda: sch.gate("drain")
        for k in ("should_replay", "on_state_change", "on_message", "on_logon"):
            conn.gates[k] = (lambda kk: (lambda: sch.gate(kk)))(k)
        conn._aio_task_socket_read.set_name("rd")
        conn._aio_task_heartbeat.set_name("hbtask")
        results = {}
        loop = s.loop

        async def app(name):
            await sch.gate("start")
            try:
                await conn.send_msg(FIXMessage(FMsg.NEWORDERSINGLE, {FTag.ClOrdID: name}))
                results[name] = "none"
            except Exception as ex:
                results[name] = type(ex).__name__

        async def hb():
            await sch.gate("start")
            try:
                await conn.send_test_req()
                results["hb"] = "none"
            except Exception as ex:
                results["hb"] = type(ex).__name__

        async def sess(name, mt):
            await sch.gate("start")
            try:
                m = FIXMessage(mt)
                if mt == FMsg.LOGON:
                    m[FTag.EncryptMethod] = "0"
                    m[FTag.HeartBtInt] = "30"
                await conn.send_msg(m)
                results[name] = "none"
            except Exception as ex:
                results[name] = type(ex).__name__

        sch.active = True
        asyncio.events._set_running_loop(loop)
        try:
            if cfg.get("logon"):
                loop.create_task(sess("lg", FMsg.LOGON), name="lg")
            if cfg.get("logout"):
                loop.create_task(sess("lo", FMsg.LOGOUT), name="lo")
            for name in cfg.get("apps", []):
                loop.create_task(app(name), name=name)
            if cfg.get("hb"):
                loop.create_task(hb(), name="hb")
        finally:
            asyncio.events._set_running_loop(None)
        frame_pending = cfg.get("frame")
        choices = []
        nopts = []
        k = 0
        while True:
            loop.run_idle()
            opts = [("gate", p) for p in sch.options()]
            if frame_pending:
                opts.append(("frame", frame_pending))
            if not opts:
                break
            c = prefix[k] if k < len(prefix) else 0
            if c >= len(opts):
                c = 0
            choices.append(c)
            nopts.append(len(opts))
            kind, o = opts[c]
            if kind == "frame":
                nin = conn._session.next_num_in
                if o == "RR":
                    data = s.peer.frame("RR", nin, b=1, e=0)
                elif o == "TR":
                    data = s.peer.frame("TR", nin, trid="T9")
                elif o == "LOGON":
                    data = s.peer.frame("LOGON", nin)
                elif o == "GAPCLOSE":      # the gap fill that closes the gap we are awaiting (state goes back to ACTIVE)
                    data = s.peer.frame("SEQRESET", nin, pd=True, gf=True, newseq=max(conn._max_seq_num_resend, nin) + 1)
                elif o == "GAP":
                    data = s.peer.frame("APP", nin + 2, pay="g")
                else:
                    data = s.peer.frame("APP", nin, pay="m")
                ep.reader.feed_data(data)
                frame_pending = None
            else:
                o[3].set_result(None)
            k += 1
            if k > 400:
                raise RuntimeError("schedule did not terminate")
        sch.active = False
        wire = []
        for f in abs_frames(ep.sent[mark:]):
            wire.append({"kind": f["kind"], "seq": f["seq"], "pd": f["pd"], "gf": f["gf"], "newseq": f["newseq"], "pay": f["pay"],
                         "sha": f["sha"]})
        post = proj_int(ep)
        rec = {"id": "s" + "".join(map(str, choices)), "first": first, "wire": wire,
               "results": [{"task": t, "exc": r} for t, r in sorted(results.items())],
               "expected_tasks": len(cfg.get("apps", [])) + (1 if cfg.get("hb") else 0) + (1 if cfg.get("logon") else 0) + (1 if cfg.get("logout") else 0),
               "jout": post["jout"], "sout": post["sout"], "nout": post["nout"], "cs": post["cs"],
               "choices": choices, "nopts": nopts, "cfg": cfg}
    except Exception as ex:
        rec = {"id": "s" + "".join(map(str, prefix)), "harness_error": "%s: %s" % (type(ex).__name__, ex), "choices": list(prefix), "nopts": [],
               "first": 0, "wire": [], "results": [], "expected_tasks": 0, "jout": [], "sout": 0, "nout": 0, "cs": "?", "cfg": cfg}
    finally:
        s.close()
    return rec


def explore(cfg, cap):
    """Stateless DFS over all schedules of the real code (up to `cap` executions)."""
    stack = [[]]
    recs = []
    seen = set()
    complete = True
    while stack:
        if len(recs) >= cap:
            complete = False
            break
        prefix = stack.pop()
        rec = run_schedule(cfg, prefix)
        key = tuple(rec["choices"])
        if key in seen:
            continue
        seen.add(key)
        recs.append(rec)
        ch, no = rec["choices"], rec["nopts"]
        for k in range(len(prefix), len(ch)):
            for c in range(1, no[k]):
                stack.append(ch[:k] + [c])
    import gc
    gc.collect()
    return recs, complete
