"""Crash-point shim for the SQLite journal: asyncfix.journaler.sqlite3 is replaced by a
proxy module that counts statement/commit boundaries (before and after each) and can
os._exit() at a chosen one.  Used inside forked children only."""
import os
import sqlite3
import types


class Shim:
    def __init__(self):
        self.count = 0
        self.armed = False
        self.target = None
        self.labels = []
        self.on_point = None   # callback(k, label) at every boundary (snapshot mode)

    def point(self, label):
        if not self.armed:
            return
        self.count += 1
        self.labels.append(label)
        if self.on_point is not None:
            self.on_point(self.count, label)
        if self.target is not None and self.count == self.target:
            os._exit(0)

    def module(self):
        shim = self

        class Cur:
            def __init__(s, c):
                s.c = c

            def execute(s, sql, *a):
                w = sql.split()[0]
                shim.point("pre:" + w)
                try:
                    r = s.c.execute(sql, *a)
                finally:
                    shim.point("post:" + w)
                return r

            def __getattr__(s, n):
                return getattr(s.c, n)

            def __iter__(s):
                return iter(s.c)

            def __next__(s):
                return next(s.c)

        class Con:
            def __init__(s, c):
                s.c = c

            def cursor(s):
                return Cur(s.c.cursor())

            def commit(s):
                shim.point("pre:commit")
                s.c.commit()
                shim.point("post:commit")

            def __getattr__(s, n):
                return getattr(s.c, n)

        class Mod:
            """sqlite3 look-alike: everything is passed through, connections are wrapped"""

            @staticmethod
            def connect(*a, **k):
                return Con(sqlite3.connect(*a, **k))

            def __getattr__(s, n):
                return getattr(sqlite3, n)

        return Mod()


def install(shim):
    import asyncfix.journaler as J
    J.sqlite3 = shim.module()


def uninstall():
    import asyncfix.journaler as J
    J.sqlite3 = sqlite3
