"""Two real endpoints (AsyncFIXClient / AsyncFIXDummyServer subclasses, real reader and
heartbeat tasks) over a fake link that can break at any frame boundary; executes the event
sequences of spec/Net.tla and records [ev, pre, out, post] steps for spec/NetEval.tla."""
import os

from .net import (Livelock, watchdog, Endpoint, FIXMessage, FMsg, FTag, VLoop, abs_frames, install_clock, RecClient, RecServer,
                  Journaler, parse_frame)
from .session import proj_int


def _out(ep, exc="none"):
    wrote, deliv, cb, dpay = ep.take()
    fr = []
    for f in abs_frames(wrote):
        fr.append({"kind": f["kind"], "seq": f["seq"], "pd": f["pd"], "gf": f["gf"], "newseq": f["newseq"],
                   "b": f["b"], "e": f["e"], "trid": f["trid"], "pay": f["pay"], "text": bool(f["text"]),
                   "sha": f["sha"], "ost": f["ost"], "st": f["st"]})
    return {"wrote": fr, "deliv": deliv, "cb": cb, "exc": exc, "dpay": ["11=" + p for p in dpay]}, wrote


class Net2:
    def __init__(self, jdir=None, tag="n"):
        self.loop = VLoop()
        install_clock(self.loop)
        self.jdir = jdir
        self.tag = tag
        self.chan = {"IA": [], "AI": []}
        self.link_up = False
        self.partial = {"I": None, "A": None}
        self.eps = {}
        self.raw = []
        self.gen = {"I": 0, "A": 0}
        for e in ("I", "A"):
            self._new_endpoint(e)
        self.steps = []

    def _jfile(self, e):
        return None if self.jdir is None else os.path.join(self.jdir, "%s_%s.db" % (self.tag, e))

    def _new_endpoint(self, e):
        fn = self._jfile(e)
        j = Journaler(fn)
        if e == "I":
            ep = Endpoint(self.loop, "INIT", "ACC", journaler=j, cls=RecClient, sink=lambda b: self._sink("IA", b))
            ep.conn.on_connect_logon = True
        else:
            ep = Endpoint(self.loop, "ACC", "INIT", journaler=j, cls=RecServer, sink=lambda b: self._sink("AI", b))
        self.eps[e] = ep

    def _sink(self, d, b):
        if self.link_up:
            self.chan[d].append(b)

    def _sync_close(self):
        """An endpoint that closed its socket takes the link down: unread input for it is discarded."""
        for e, d_in in (("I", "AI"), ("A", "IA")):
            ep = self.eps[e]
            if self.link_up and ep.writer is not None and ep.writer.closed:
                self.link_up = False
                self.chan[d_in] = []
                for x in self.eps.values():
                    if x.writer is not None:
                        x.writer.up = False

    def state(self):
        return {"I": proj_int(self.eps["I"]), "A": proj_int(self.eps["A"]), "link": "up" if self.link_up else "down",
                "nIA": len(self.chan["IA"]), "nAI": len(self.chan["AI"])}

    def apply(self, ev):
        ev = dict(ev)
        pre = self.state()
        exc = {"I": "none", "A": "none"}
        t = ev["t"]
        I, A = self.eps["I"], self.eps["A"]
        if t == "reconnect":
            if I.conn._socket_reader is None and A.conn._socket_writer is None:
                self.chan = {"IA": [], "AI": []}
                self.link_up = True
                A.attach(via="accept")
                I.attach(via="client")
                self.loop.advance(1.0)     # reader tasks poll for the new socket once per second
            else:
                ev["skipped"] = True
        elif t == "send":
            ep = self.eps[ev["e"]]
            m = FIXMessage(FMsg.NEWORDERSINGLE, {FTag.ClOrdID: ev["pay"][3:]})
            r = ep.send(m)
            exc[ev["e"]] = "none" if r == "ok" else r
        elif t == "deliver":
            d = ev["dir"]
            if self.chan[d]:
                b = self.chan[d].pop(0)
                rcv = A if d == "IA" else I
                f = parse_frame(b)
                ev["f"] = {"kind": f["kind"], "seq": f["seq"], "pd": f["pd"], "gf": f["gf"], "newseq": f["newseq"],
                           "b": f["b"], "e": f["e"], "trid": f["trid"], "pay": f["pay"], "text": bool(f["text"]), "hdr": "ok"}
                ev["now"] = int(self.loop.time())
                if rcv.reader is not None and rcv.conn._socket_reader is rcv.reader and not rcv.reader._eof:
                    rcv.feed(b)
            else:
                ev["skipped"] = True
        elif t == "break":
            if self.link_up:
                nxt = {d: (self.chan[d][k] if len(self.chan[d]) > k else None) for d, k in (("IA", ev["ki"]), ("AI", ev["ka"]))}
                self.chan["IA"] = self.chan["IA"][:ev["ki"]]
                self.chan["AI"] = self.chan["AI"][:ev["ka"]]
                self.link_up = False
                for x in self.eps.values():
                    if x.writer is not None:
                        x.writer.up = False
                mid = ev.get("mid")
                if mid and nxt.get(mid) is not None:
                    cut = max(1, min(len(nxt[mid]) - 1, ev.get("cut", 40)))
                    self.partial["A" if mid == "IA" else "I"] = nxt[mid][:cut]
            else:
                ev["skipped"] = True
        elif t == "eof":
            ep = self.eps[ev["e"]]
            d_in = "AI" if ev["e"] == "I" else "IA"
            if not self.link_up and not self.chan[d_in]:
                if self.partial[ev["e"]] is not None and ep.reader is not None and ep.conn._socket_reader is ep.reader and not ep.reader._eof:
                    ep.feed(self.partial[ev["e"]])
                self.partial[ev["e"]] = None
                ep.eof(ev.get("how", "eof"))
            else:
                ev["skipped"] = True
        elif t == "restart":
            e = ev["e"]
            if not self.chan["IA"] and not self.chan["AI"]:
                old = self.eps[e]
                # graceful stop: tasks cancelled, journal closed; a new object over the same journal file
                for tk in (old.conn._aio_task_socket_read, old.conn._aio_task_heartbeat):
                    if tk is not None:
                        tk.cancel()
                self.loop.run_idle()
                if old.writer is not None:
                    old.writer.closed = True
                old.conn._journaler = None
                old.j = None
                del old
                self._new_endpoint(e)
                self.link_up = False
                for x in self.eps.values():
                    if x.writer is not None:
                        x.writer.up = False
            else:
                ev["skipped"] = True
        elif t == "tick":
            self.loop.advance(ev["dt"])
        if ev.get("skipped"):
            return      # inapplicable in the current state: no step
        self._sync_close()
        out = {}
        for e in ("I", "A"):
            o, raw = _out(self.eps[e], exc[e])
            out[e] = o
            self.raw.extend(raw)
        post = self.state()
        self.steps.append({"ev": ev, "pre": pre, "out": out, "post": post})

    def close(self):
        try:
            self.loop.shutdown()
        except Exception:
            pass


def run_trace(spec):
    n = Net2(jdir=spec.get("jdir"), tag=spec["id"].replace("/", "_"))
    err = None
    try:
        for ev in spec["evs"]:
            with watchdog(spec.get("watchdog", 30)):      # per event
                n.apply(ev)
    except (Exception, Livelock) as ex:
        err = "%s: %s" % (type(ex).__name__, ex)
    finally:
        n.close()
        if spec.get("jdir"):
            for e in ("I", "A"):
                fn = n._jfile(e)
                n.eps[e].conn._journaler = None
                n.eps[e].j = None
            n.eps = {}
            import gc
            gc.collect()
            for e in ("I", "A"):
                for suf in ("", "-journal"):
                    p = os.path.join(spec["jdir"], "%s_%s.db%s" % (n.tag, e, suf))
                    if os.path.exists(p):
                        os.remove(p)
    rec = {"id": spec["id"], "steps": n.steps}
    if err:
        rec["harness_error"] = err
    if spec.get("keep_raw"):
        rec["raw"] = [b.decode("latin-1") for b in n.raw]
    return rec
