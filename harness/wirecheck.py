"""Shared pieces for the byte-level properties C02, C10, C03 (spec/Wire.tla, spec/WireEval.tla)."""
import sys

from .net import (Endpoint, FIXMessage, FMsg, FTag, PeerCodec, VLoop, install_clock, RecConn, Journaler, Codec,
                  FIXProtocol44, FIXSession, ConnectionState)
from . import tlc


def corpus():
    """Valid frames produced by the real encoder: session and application types, a repeating group."""
    c = Codec(FIXProtocol44())
    s = FIXSession(0, "ACC", "INIT")
    s.next_num_out = 1
    msgs = []
    m = FIXMessage(FMsg.LOGON, {FTag.EncryptMethod: "0", FTag.HeartBtInt: "30"}); msgs.append(m)
    msgs.append(FIXMessage(FMsg.HEARTBEAT))
    msgs.append(FIXMessage(FMsg.TESTREQUEST, {FTag.TestReqID: "77"}))
    m = FIXMessage(FMsg.NEWORDERSINGLE, {FTag.ClOrdID: "ord1", FTag.Symbol: "VOD.L", FTag.Side: "1", FTag.OrderQty: "100",
                                          FTag.Price: "12.5", FTag.Text: "a=b 10=x"})
    msgs.append(m)
    m = FIXMessage(FMsg.NEWORDERSINGLE, {FTag.ClOrdID: "ord2", FTag.NoAllocs: [{FTag.AllocAccount: "A1", FTag.AllocQty: "5"},
                                                                                  {FTag.AllocAccount: "A2", FTag.AllocQty: "7"}]})
    msgs.append(m)
    m = FIXMessage(FMsg.SEQUENCERESET, {FTag.GapFillFlag: "Y", FTag.NewSeqNo: "9", FTag.MsgSeqNum: "6"}); msgs.append(m)
    return [c.encode(x, s).encode("latin-1") for x in msgs]


def peer_frames(n, start=1, kind="APP"):
    p = PeerCodec("B", "A")
    return [p.frame(kind, start + i) for i in range(n)]


def decode_record(rid, buf, orig=None, maxcalls=None, follow=()):
    """Repeated decode(silent=True) until nothing is consumed and no message is returned."""
    c = Codec(FIXProtocol44())
    rem = bytes(buf)
    calls = []
    terminated = False
    limit = maxcalls or (len(buf) + 3)
    for _ in range(limit):
        call = {"rem": list(rem), "exc": "none", "msg": False, "consumed": 0, "raw": []}
        try:
            m, n, raw = c.decode(rem)
            call["msg"] = m is not None
            call["consumed"] = int(n)
            call["raw"] = list(raw) if raw is not None else []
        except Exception as ex:
            call["exc"] = type(ex).__name__
        calls.append(call)
        if call["exc"] != "none":
            terminated = True
            break
        if call["consumed"] > 0:
            rem = rem[call["consumed"]:]
        if (not call["msg"] and call["consumed"] == 0) or not rem:
            terminated = True
            break
    return {"id": rid, "kind": "decode", "buf": list(buf), "calls": calls, "terminated": terminated,
            "orig": list(orig) if orig is not None else [], "follow": [list(f) for f in follow]}


def live_record(rid, chunks, expect_seqs, logon_first=True):
    """Feed chunks to the real socket_read_task of a logged-on acceptor; what is delivered to on_message?"""
    from .net import watchdog, Livelock
    loop = VLoop()
    install_clock(loop)
    ep = Endpoint(loop, "A", "B")
    err = None
    try:
        with watchdog(120):
            ep.attach()
            loop.advance(1.0)
            if logon_first:
                ep.feed(PeerCodec("B", "A").frame("LOGON", 1))
            ep.take()
            for ch in chunks:
                if ep.conn._socket_reader is not ep.reader:
                    break
                ep.feed(ch)
        wrote, deliv, cb, _ = ep.take()
        buflen = len(ep.conn._msg_buffer)
        cs = ep.conn.connection_state.name
    except (Exception, Livelock) as ex:
        err = "%s: %s" % (type(ex).__name__, ex)
        deliv, buflen, cs = [], -1, "?"
    finally:
        try:
            loop.shutdown()
        except Exception:
            pass
    rec = {"id": rid, "kind": "live", "expect": list(expect_seqs), "deliv": list(deliv), "buflen": buflen, "cs": cs,
           "nchunks": len(chunks)}
    if err:
        rec["harness_error"] = err
    return rec


def evaluate(ctx, recs, name="weval"):
    return tlc.evaluate(ctx.sub(name), "WireEval", recs, shard_size=max(50, min(3000, len(recs) // 16 + 1)), jobs=16, timeout=2400, heap="4g")


def reads_record(rid, chunks, ends, expect, tail=0):
    """C03: feed `chunks` to the real reader of a logged-on acceptor; after every read count the inbound journal rows."""
    from .net import watchdog, Livelock, MessageDirection
    loop = VLoop()
    install_clock(loop)
    ep = Endpoint(loop, "A", "B")
    reads = []
    err = None
    deliv, buflen = [], -1
    try:
        with watchdog(120):
            ep.attach()
            loop.advance(1.0)
            ep.feed(PeerCodec("B", "A").frame("LOGON", 1))
            ep.take()
            pos = 0
            for ch in chunks:
                ep.feed(ch)
                pos += len(ch)
                n = len(ep.j.recover_messages(ep.conn._session, MessageDirection.INBOUND, 2, 2 ** 31))
                reads.append({"pos": pos, "n": n})
        wrote, deliv, cb, _ = ep.take()
        buflen = len(ep.conn._msg_buffer)
    except (Exception, Livelock) as ex:
        err = "%s: %s" % (type(ex).__name__, ex)
    finally:
        try:
            loop.shutdown()
        except Exception:
            pass
    rec = {"id": rid, "kind": "reads", "ends": list(ends), "reads": reads, "deliv": list(deliv), "expect": list(expect),
           "buflen": buflen, "tail": tail, "cuts": [r["pos"] for r in reads[:-1]] if len(reads) < 8 else len(reads)}
    if err:
        rec["harness_error"] = err
    return rec
