"""C05 - consecutive outbound numbering, journaled under that number."""
from ..core import Outcome
from .. import sessrun


def run(ctx):
    out = Outcome()
    # outbound histories over every kind of journaled message (application, declined, session, hole, carrying its own
    # OrigSendingTime, PossDupFlag=N spelled out) x ResendRequests served in between x a fresh send afterwards
    from .c06 import journal_specs
    extra = journal_specs(1 if ctx.quick else 3)
    out.extra["journal_x_request_traces"] = len(extra)
    sessrun.run_property(ctx, out, "C05", extra_specs=extra)
    return out


def replay(ctx, inp):
    out = Outcome()
    sessrun.replay_one(ctx, out, "C05", inp)
    return out
