"""C05 - consecutive outbound numbering, journaled under that number."""
from ..core import Outcome
from .. import sessrun


def run(ctx):
    out = Outcome()
    # outbound histories over every kind of journaled message (application, declined, session, hole, carrying its own
    # OrigSendingTime, PossDupFlag=N spelled out) x ResendRequests served in between x a fresh send afterwards
    from .c06 import journal_specs
    extra = journal_specs(1 if ctx.quick else 3)
    # messages with latin-1 text, as application sends and as echoes caused by inbound traffic (a TestReqID is echoed in the
    # Heartbeat): the journaled bytes must be the bytes put on the wire
    from .c06 import RF, RS
    for i, v in enumerate(["Z\xfcrich caf\xe9", "\xff", "a\xa0b"]):
        extra.append({"id": "l1s%d" % i, "declined": [],
                      "revs": [{"t": "attach"}, RF("LOGON", 0), RS("APP", "11=q%d|1=%s" % (i, v)), RF("TR", 0, trid="PR\xdcF-%d" % i),
                               RS("APP", "11=r%d" % i), RF("RR", 0, bm="abs", bv=1, em="abs", ev=0), RS("APP", "11=s%d|1=%s" % (i, v))]})
    # "stored" means stored durably: the same histories over a journal file whose state is read through a second connection
    # after every step (rows and counters that were written but not committed are not there)
    extra += [dict(sp, id=sp["id"] + ".file", filej=True) for sp in extra]
    out.extra["journal_x_request_traces"] = len(extra)
    sessrun.run_property(ctx, out, "C05", extra_specs=extra)
    return out


def replay(ctx, inp):
    out = Outcome()
    sessrun.replay_one(ctx, out, "C05", inp)
    return out
