"""C05 - consecutive outbound numbering, journaled under that number."""
from ..core import Outcome
from .. import sessrun


def run(ctx):
    out = Outcome()
    sessrun.run_property(ctx, out, "C05")
    return out


def replay(ctx, inp):
    out = Outcome()
    sessrun.replay_one(ctx, out, "C05", inp)
    return out
