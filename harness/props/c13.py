"""C13 - the journal is a faithful per-session, per-direction message store.

Spec: spec/Journal.tla (reference model), spec/JournalMC.tla (bounded exhaustive
exploration + the C13 laws as invariants/action properties), spec/JournalEval.tla
(evaluator: folds the model over recorded executions of the real Journaler).
"""
import hashlib
import os
import random

from .. import tlc
from ..core import Outcome
from ..par import pmap

PAIRS = [("T", "S"), ("S", "T"), ("T", "SS")]
DIRS = ["in", "out"]


def _h(b):
    return hashlib.sha1(b).hexdigest()[:12]


def _frame(seq, payload):
    body = b"35=D\x0134=%d\x0158=" % seq + payload + b"\x01"
    return b"8=FIX.4.4\x019=%d\x01" % len(body) + body + b"10=000\x01"


def mc_cfg(mr, mo, seqs, sv, dump, props=True):
    s = "SPECIFICATION Spec\nCONSTANTS\n MaxRows = %d\n MaxObjs = %d\n Seqs = {%s}\n SetVals = {%s}\n Dump = %s\nVIEW View\n" % (
        mr, mo, ",".join(map(str, seqs)), ",".join(map(str, sv)), "TRUE" if dump else "FALSE")
    if props:
        s += "INVARIANT Inv_Unique\nINVARIANT Inv_LoadPathsAgree\nINVARIANT Inv_Range\nPROPERTY Act_Persist\nPROPERTY Act_SetSeq\n"
    if dump:
        s += "INVARIANT Inv_DumpState\n"
    s += "CHECK_DEADLOCK FALSE\n"
    return s


def execute(tr):
    """Run the ops of a trace on a real Journaler; fills in 'res' of every op."""
    from asyncfix.journaler import Journaler
    from asyncfix.message import MessageDirection
    from asyncfix.errors import DuplicateSeqNoError
    D = {"in": MessageDirection.INBOUND, "out": MessageDirection.OUTBOUND}
    DN = {MessageDirection.INBOUND.value: "in", MessageDirection.OUTBOUND.value: "out"}
    fn = tr.get("file")
    if fn and os.path.exists(fn):
        os.remove(fn)
    j = Journaler(fn)
    objs = []
    out = []
    for o in tr["ops"]:
        o = dict(o)
        k = o["op"]
        try:
            if k == "col":
                s = j.create_or_load(o["t"], o["s"])
                objs.append(s)
                o["res"] = {"key": s.key, "nout": s.next_num_out, "nin": s.next_num_in}
            elif k == "sessions":
                r = j.sessions()
                o["res"] = [{"key": s.key, "t": t, "s": sn, "nout": s.next_num_out, "nin": s.next_num_in}
                            for (t, sn), s in r.items()]
                for (t, sn), s in r.items():
                    if (s.target_comp_id, s.sender_comp_id) != (t, sn):
                        o["res"].append({"err": "key-mismatch"})
            elif k == "persist":
                raw = _frame(o["seq"], o.get("payload", o["data"]).encode("latin-1"))
                o["data"] = _h(raw)
                o.pop("payload", None)
                try:
                    j.persist_msg(raw, objs[o["so"] - 1], D[o["dir"]])
                    o["res"] = "ok"
                except DuplicateSeqNoError:
                    o["res"] = "dup"
            elif k == "recover":
                lo, hi = o["lo"], o["hi"]
                if o.get("strbounds"):
                    lo, hi = str(lo), str(hi)
                r = j.recover_messages(objs[o["so"] - 1], D[o["dir"]], lo, hi)
                o["res"] = [_h(b) for b in r]
            elif k == "recover1":
                r = j.recover_msg(objs[o["so"] - 1], D[o["dir"]], o["seq"])
                o["res"] = "none" if r is None else _h(r)
            elif k == "getall":
                ss = None if not o["keys"] else [objs[i - 1] if o.get("byobj") else i for i in o["keys"]]
                if o.get("byobj") and o["keys"]:
                    o["keys"] = [objs[i - 1].key for i in o["keys"]]
                    o.pop("byobj")
                r = j.get_all_msgs(ss, None if o["dir"] == "any" else D[o["dir"]])
                o["res"] = [{"seq": a, "data": _h(b), "dir": DN[c], "key": d} for (a, b, c, d) in r]
            elif k == "setseq":
                s = objs[o["so"] - 1]
                j.set_seq_num(s, next_num_out=o["a"] or None, next_num_in=o["b"] or None)
                o["res"] = {"r": "ok", "nout": s.next_num_out, "nin": s.next_num_in}
            else:
                raise ValueError(k)
        except Exception as ex:  # result shaped like the normal one so TLC can compare it
            e = "err:" + type(ex).__name__
            o["res"] = e if k in ("persist", "recover1") else ([e] if k == "recover" else
                       ([{"err": e}] if k in ("getall", "sessions") else {"err": e}))
        o.pop("strbounds", None)
        out.append(o)
    del j
    if fn and os.path.exists(fn):
        os.remove(fn)
    return {"id": tr["id"], "ops": out}


def battery(nobjs, seqs, full):
    ops = [{"op": "sessions"}, {"op": "getall", "keys": [], "dir": "any"}]
    hi = max(seqs) + 1
    for so in range(1, nobjs + 1):
        for d in DIRS:
            ops.append({"op": "recover", "so": so, "dir": d, "lo": 0, "hi": hi})
            if full:
                for lo in range(0, hi + 1):
                    for h2 in range(0, hi + 1):
                        ops.append({"op": "recover", "so": so, "dir": d, "lo": lo, "hi": h2})
                for n in seqs:
                    ops.append({"op": "recover1", "so": so, "dir": d, "seq": n})
                ops.append({"op": "getall", "keys": [so], "dir": d, "byobj": True})
    if full:
        for d in DIRS:
            ops.append({"op": "getall", "keys": [], "dir": d})
        ops.append({"op": "getall", "keys": [1, 2], "dir": "any"})
    for (t, s) in PAIRS:
        ops.append({"op": "col", "t": t, "s": s})
    return ops


def mutators(nobjs, mo, seqs, sv):
    ops = []
    if nobjs < mo:
        ops += [{"op": "col", "t": t, "s": s} for (t, s) in PAIRS]
    for so in range(1, nobjs + 1):
        for d in DIRS:
            for n in seqs:
                for x in ("a", "b"):
                    ops.append({"op": "persist", "so": so, "dir": d, "seq": n, "data": x})
        for a in sv:
            for b in sv:
                if a + b > 0:
                    ops.append({"op": "setseq", "so": so, "a": a, "b": b})
    return ops


def random_trace(rng, tid, nops):
    ids = ["T", "S", "SS", "TT", "T S", "", "x" * 40, "é"]
    nobj = 0
    ops = []
    seqpool = [1, 2, 3, 4, 5, 7, 10, 99, 1000, 65536, 2 ** 31 - 2]
    for _ in range(nops):
        r = rng.random()
        if nobj == 0 or r < 0.12:
            ops.append({"op": "col", "t": rng.choice(ids), "s": rng.choice(ids)})
            nobj += 1
        elif r < 0.5:
            pl = "".join(chr(rng.choice([65, 66, 0x7c, 0x3d, 0xe9, 0x00, 0xff, 0x31])) for _ in range(rng.randint(0, 6)))
            ops.append({"op": "persist", "so": rng.randint(1, nobj), "dir": rng.choice(DIRS),
                        "seq": rng.choice(seqpool), "data": "", "payload": pl})
        elif r < 0.62:
            ops.append({"op": "setseq", "so": rng.randint(1, nobj), "a": rng.choice([0] + seqpool), "b": rng.choice([0] + seqpool)})
            if ops[-1]["a"] + ops[-1]["b"] == 0:
                ops[-1]["a"] = 1
        elif r < 0.8:
            lo = rng.choice([0, 1, 2, 3, 5, 8, 100, 2 ** 31 - 2]); hi = rng.choice([0, 1, 2, 4, 7, 99, 1001, 2 ** 31 - 1])
            ops.append({"op": "recover", "so": rng.randint(1, nobj), "dir": rng.choice(DIRS), "lo": lo, "hi": hi,
                        "strbounds": rng.random() < 0.3})
        elif r < 0.86:
            ops.append({"op": "recover1", "so": rng.randint(1, nobj), "dir": rng.choice(DIRS), "seq": rng.choice(seqpool)})
        elif r < 0.93:
            ks = sorted(set(rng.randint(1, nobj) for _ in range(rng.randint(0, 2))))
            ops.append({"op": "getall", "keys": ks, "dir": rng.choice(DIRS + ["any"]), "byobj": True})
        else:
            ops.append({"op": "sessions"})
    ops.append({"op": "sessions"})
    ops.append({"op": "getall", "keys": [], "dir": "any"})
    return {"id": tid, "ops": ops}


def _evaluate(ctx, out, recs, inputs):
    verd = tlc.evaluate(ctx.sub("eval"), "JournalEval", recs, shard_size=max(200, min(4000, len(recs) // 16 + 1)), jobs=16)
    for rec, v, inp in zip(recs, verd, inputs):
        out.traces += 1
        for o in rec["ops"]:
            out.clause_hits["R_" + o["op"]] = out.clause_hits.get("R_" + o["op"], 0) + 1
        if not v["fails"]:
            out.traces_ok += 1
        seen = set()
        for f in v["fails"]:
            if f["clause"] in seen:
                continue
            seen.add(f["clause"])
            out.failures.append({"clause": f["clause"], "triggers": [], "input": inp,
                                 "detail": {"step": f["step"], "op": rec["ops"][f["step"] - 1], "model_expected": f["expected"]},
                                 "trace": rec})


def run(ctx):
    out = Outcome()
    q = ctx.quick
    # (1) design: the reference model satisfies the C13 laws (bounded exhaustive, 16 workers)
    # thorough: 3 operations per session object x 2 objects (1.3 M states, 32 M transitions, ~7 min); the instance with four
    # sequence numbers and four counter values on top of that did not finish in 25 min and was dropped
    big = (2, 2, [1, 2, 3], [0, 1, 2]) if q else (3, 2, [1, 2, 3], [0, 1, 2])
    r = tlc.model_check(ctx.sub("mc"), "JournalMC", mc_cfg(*big, dump=False), timeout=5400, heap="16g")
    out.add_tlc(r)
    ctx.log("design model: %d distinct states, %d transitions, laws hold" % (r["distinct"], r["generated"]))
    # (2) spec -> code: a shortest operation path to every distinct state of a smaller instance
    insts = [(2, 1, [1, 2], [0, 1, 2]), (1, 2, [1], [0, 2])] if q else \
            [(2, 1, [1, 2, 3], [0, 1, 2, 3]), (1, 2, [1, 2, 3], [0, 1, 2]), (3, 1, [1, 2], [0, 2])]
    traces = []
    nstates = 0
    for ii, small in enumerate(insts):
        mr, mo, seqs, sv = small
        d = tlc.dump_edges(ctx.sub("dump%d" % ii), "JournalMC", mc_cfg(*small, dump=True, props=False), marker="STATE", timeout=5400)
        paths = d["edges"]
        if len(paths) != d["distinct"]:
            raise tlc.MachineryError("state dump incomplete: %d of %d" % (len(paths), d["distinct"]))
        ctx.log("replay instance %s: %d distinct states" % (small, len(paths)))
        nstates += len(paths)
        for si, p in enumerate(paths):
            nobjs = sum(1 for o in p if o["op"] == "col")
            traces.append({"id": "i%d.s%d" % (ii, si), "ops": list(p) + battery(nobjs, seqs, True)})
            for mi, m in enumerate(mutators(nobjs, mo, seqs, sv)):
                no2 = nobjs + (1 if m["op"] == "col" else 0)
                traces.append({"id": "i%d.s%d.m%d" % (ii, si, mi), "ops": list(p) + [m] + battery(no2, seqs, False)})
    nmodel = len(traces)
    # every 50th of them also on a file-backed journal
    fdir = ctx.sub("files")
    ftr = [dict(t, id=t["id"] + ".file", file=os.path.join(fdir, "j%d.db" % i)) for i, t in enumerate(traces[::50])]
    # (3) code -> spec: random long sequences with sparse/large numbers, odd ids, arbitrary bytes
    rng = random.Random(ctx.seed * 7919 + 13)
    nrand = 1500 if q else 20000
    rtr = [random_trace(rng, "r%d" % i, rng.randint(5, 40)) for i in range(nrand)]
    allin = traces + ftr + rtr
    ctx.log("executing %d traces on the real Journaler (%d from the model graph, %d on files, %d random)"
            % (len(allin), nmodel, len(ftr), len(rtr)))
    recs = pmap(execute, allin)
    _evaluate(ctx, out, recs, allin)
    out.samples = [recs[1], recs[-1]]
    out.exhaustive = True
    out.extra.update({"model_states_replayed": nstates, "model_transitions_replayed": nmodel - nstates,
                      "random_walks": len(rtr), "file_backed": len(ftr),
                      "bounds": {"design": {"MaxRows": big[0], "MaxObjs": big[1], "Seqs": big[2], "SetVals": big[3]},
                                 "replay_instances(MaxRows,MaxObjs,Seqs,SetVals)": insts}})
    out.assumptions = ["sequence numbers below 2^31 (TLC integers are 32-bit)",
                       "message bytes are compared by SHA-1 prefix",
                       "set_seq_num is only called with positive numbers or None (non-positive values are outside the property)"]
    return out


def replay(ctx, inp):
    out = Outcome()
    rec = execute(inp)
    _evaluate(ctx, out, [rec], [inp])
    out.states = out.transitions = 1
    out.samples = [rec]
    return out
