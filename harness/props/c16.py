"""C16 - the order status transition function is total, closed and lifecycle-safe.

Spec: spec/OrderStatus.tla (the transition tables transcribed as a total function + laws
L1-L5), spec/OrderStatusMC.tla (TLC evaluates the laws on the table over the whole domain),
spec/OrderStatusEval.tla (the real change_status on all 40 500 points + can_cancel /
can_replace / is_finished for every status, judged by the same laws)."""
import os

from ..core import Outcome
from ..par import pmap
from .. import tlc

ST = ["Z", "0", "1", "2", "3", "4", "6", "7", "8", "9", "A", "B", "C", "D", "E"]
KINDS = ["8", "9", "F", "G", "X"]
ET = ["0", "3", "4", "5", "6", "7", "8", "9", "A", "B", "C", "D", "E", "F", "G", "H", "I", "-"]


def points(order=(True, False), prefix="p"):
    """Every cell in both error modes.  `order` is the order in which the two modes of one cell are asked: the function is
    a function - what it answers must not depend on what it was asked before (a result remembered from the quiet call
    must not leak into the raising call of the same cell, nor the other way round)."""
    out = []
    i = 0
    for st in ST:
        for k in KINDS:
            for et in ET:
                for ms in ST:
                    for r in order:
                        out.append({"id": "%s%d" % (prefix, i), "t": "point", "st": st, "kind": k, "et": et, "ms": ms, "raise": r,
                                    "fresh": prefix != "p"})
                        i += 1
    return out


def execute(chunk):
    import sys
    if __import__("harness").REPO not in sys.path:
        sys.path.insert(0, __import__("harness").REPO)
    from asyncfix import FMsg
    from asyncfix.errors import FIXError
    if chunk and chunk[0].get("fresh"):
        # the quiet-first pass starts from a freshly executed module: nothing the raising-first pass asked is remembered
        import importlib
        import asyncfix.protocol.order_single as _m
        importlib.reload(_m)
    from asyncfix.protocol.order_single import FIXNewOrderSingle
    from asyncfix.protocol.common import FOrdStatus, FExecType
    KM = {"8": FMsg.EXECUTIONREPORT, "9": FMsg.ORDERCANCELREJECT, "F": FMsg.ORDERCANCELREQUEST, "G": FMsg.ORDERCANCELREPLACEREQUEST,
          "X": FMsg.NEWORDERSINGLE}
    res = []
    for p in chunk:
        p = dict(p)
        if p["t"] == "point":
            # alternate between enum members and plain strings: both spellings must behave the same
            alt = hash(p["id"]) % 2 == 0
            st = FOrdStatus(p["st"]) if alt else p["st"]
            ms = FOrdStatus(p["ms"]) if not alt else p["ms"]
            et = 0 if p["et"] == "-" else (FExecType(p["et"]) if alt else p["et"])
            try:
                r = FIXNewOrderSingle.change_status(st, KM[p["kind"]], et, ms, raise_on_err=p["raise"])
                p["res"] = "none" if r is None else "status:%s" % str(r)
            except FIXError as ex:
                p["res"] = "exc:FIXError" if type(ex) is FIXError else "exc:" + type(ex).__name__
            except Exception as ex:
                p["res"] = "exc:" + type(ex).__name__
        else:
            o = FIXNewOrderSingle("c1", "T", "1", 10.0, 5)
            o.status = FOrdStatus(p["st"])
            try:
                p["can_cancel"], p["can_replace"], p["is_finished"] = bool(o.can_cancel()), bool(o.can_replace()), bool(o.is_finished())
            except Exception as ex:
                p["can_cancel"] = p["can_replace"] = p["is_finished"] = "exc:" + type(ex).__name__
        res.append(p)
    return res


def run(ctx):
    out = Outcome()
    w = ctx.sub("mc")
    tlc.prepare(w, "OrderStatusMC", "")
    rc, o, wall = tlc._java(["-workers", "1", "-metadir", os.path.join(w, "m"), "-config", "OrderStatusMC.cfg", "OrderStatusMC.tla"], w, None, 600, "4g")
    if rc != 0 or "No error has been found" not in o:
        raise tlc.MachineryError("OrderStatusMC failed:\n" + o[-2000:])
    out.states = 40500
    out.transitions = 40500
    ctx.log("laws L1-L5 hold on the transcribed table over the whole domain (40500 points) except the test-pinned cells")
    p1, p2 = points(), points(order=(False, True), prefix="q")
    pts = p1 + p2 + [{"id": "d%s" % s, "t": "derived", "st": s} for s in ST]
    chunks = [pts[i:i + 2500] for i in range(0, len(pts), 2500)]
    recs = [r for c in pmap(execute, chunks, force=True) for r in c]
    verd = tlc.evaluate(ctx.sub("eval"), "OrderStatusEval", recs, shard_size=3000, jobs=16)
    for rec, v in zip(recs, verd):
        out.traces += 1
        if v["drift"]:
            out.drift += 1
            if len(out.drift_samples) < 8:
                out.drift_samples.append({k: rec[k] for k in ("st", "kind", "et", "ms", "raise", "res")})
        if not v["fails"] and not v["drift"]:
            out.traces_ok += 1
        for c in v["fails"]:
            out.failures.append({"clause": c, "triggers": v["trigs"], "input": rec, "detail": {k: rec.get(k) for k in ("st", "kind", "et", "ms", "raise", "res", "can_cancel", "can_replace", "is_finished")}, "trace": None})
    out.samples = recs[:2] + recs[-1:]
    out.exhaustive = True
    out.extra["domain_points"] = len(pts)
    out.assumptions = ["unsupported kinds are represented by NewOrderSingle ('D')", "enum members and their string values are used alternately as arguments",
                       "every cell is asked in both error modes in both orders (raising first; quiet first in a freshly loaded module)"]
    return out


def replay(ctx, inp):
    out = Outcome()
    if inp.get("t") == "point":
        # re-create the history of the cell: both error modes in the order of the pass the point came from
        order = (False, True) if inp.get("fresh") else (True, False)
        pair = [dict(inp, **{"raise": r}) for r in order]
        rec = next(r for r in execute(pair) if r["raise"] == inp["raise"])
    else:
        rec = execute([inp])[0]
    verd = tlc.evaluate(ctx.sub("eval"), "OrderStatusEval", [rec])
    out.traces = 1
    for c in verd[0]["fails"]:
        out.failures.append({"clause": c, "triggers": verd[0]["trigs"], "input": inp, "detail": rec, "trace": None})
    if not verd[0]["fails"]:
        out.traces_ok = 1
    out.states = out.transitions = 1
    out.samples = [rec]
    return out
