"""C15 - schema validation accepts exactly the messages the FIX dictionary allows.

Spec: spec/SchemaValid.tla (three-valued validity of a message tree w.r.t. a dictionary that
an independent translator, harness/fixdict.py, turns into a TLA+ constant), spec/Lexical.tla
(value spaces), spec/SchemaValidEval.tla.  For every message type: canonical instances and
every single-fault mutant at every position and nesting depth; the real FIXSchema.validate
built from the XML and from permutations of its <components>; TLC computes the verdicts."""
import copy
import json
import os
import random
import xml.etree.ElementTree as ET

from ..core import Outcome
from ..par import pmap
from .. import tlc, fixdict

XMLS = {"FIX44": __import__("harness").REPO + "/tests/FIX44.xml", "TT": __import__("harness").REPO + "/tests/TT-FIX44.xml"}
GOOD = {"INT": "7", "SEQNUM": "3", "NUMINGROUP": "1", "LENGTH": "4", "DAYOFMONTH": "15", "FLOAT": "1.5", "QTY": "100", "PRICE": "12.25", "PRICEOFFSET": "-0.5",
        "AMT": "1000.50", "PERCENTAGE": "0.05", "CHAR": "A", "BOOLEAN": "Y", "STRING": "abc", "MULTIPLEVALUESTRING": "A B", "MULTIPLESTRINGVALUE": "A B",
        "CURRENCY": "USD", "COUNTRY": "US", "EXCHANGE": "XNYS", "UTCTIMESTAMP": "20240102-03:04:05", "UTCTIMEONLY": "03:04:05", "UTCDATEONLY": "20240102",
        "LOCALMKTDATE": "20240102", "MONTHYEAR": "202401", "DATA": "xyz"}
BAD = {"INT": "1x", "SEQNUM": "0", "NUMINGROUP": "-1", "DAYOFMONTH": "32", "FLOAT": "1,5", "QTY": "ten", "PRICE": "1.2.3", "PRICEOFFSET": "+-1", "AMT": "1 000",
       "PERCENTAGE": "5%", "CHAR": "AB", "BOOLEAN": "T", "STRING": "a\x01b", "MULTIPLEVALUESTRING": "a\x01b", "MULTIPLESTRINGVALUE": "a\x01b", "CURRENCY": "USDX",
       "COUNTRY": "USA", "EXCHANGE": "XNYSE", "UTCTIMESTAMP": "20240102 03:04:05", "UTCTIMEONLY": "3:4:5", "UTCDATEONLY": "20241302", "LOCALMKTDATE": "2024-01-02",
       "MONTHYEAR": "202413"}


class Builder:
    def __init__(self, d, rng):
        self.d = d
        self.rng = rng

    def val(self, tag):
        f = self.d["fields"][tag]
        if f["enums"]:
            return self.rng.choice(f["enums"])
        return GOOD.get(f["type"], "abc")

    def badval(self, tag):
        f = self.d["fields"][tag]
        if f["enums"]:
            return "~nope~"
        return BAD.get(f["type"])

    def fields(self, members, mode, depth=0, nitems=1):
        out = []
        for m in members:
            take = m["req"] or mode == "all" or (mode == "some" and self.rng.random() < 0.3)
            if not take:
                continue
            if m["k"] == "f":
                out.append({"k": "f", "tag": m["tag"], "val": self.val(m["tag"])})
            else:
                if depth >= 3 and not m["req"]:
                    continue
                items = []
                for _ in range(nitems):
                    it = self.fields(m["members"], mode, depth + 1, nitems)
                    first = m["members"][0]
                    if not it or it[0]["tag"] != first["tag"]:
                        if first["k"] == "f":
                            it = [{"k": "f", "tag": first["tag"], "val": self.val(first["tag"])}] + [x for x in it if x["tag"] != first["tag"]]
                    items.append(it)
                out.append({"k": "g", "tag": m["tag"], "items": items})
        return out


def walk(tree, members, path=()):
    """yield (path, index, field, member-or-None, members) for every field at every depth"""
    mt = {m["tag"]: m for m in members}
    for i, f in enumerate(tree):
        yield path, i, f, mt.get(f["tag"]), members
        if f["k"] == "g" and f["tag"] in mt and mt[f["tag"]]["k"] == "g":
            for j, it in enumerate(f["items"]):
                yield from walk(it, mt[f["tag"]]["members"], path + ((i, j),))


def at(tree, path):
    t = tree
    for (i, j) in path:
        t = t[i]["items"][j]
    return t


def representable(tree):
    """a FIXContainer cannot hold the same tag twice: such trees are artefacts of the mutation operators, not messages"""
    tags = [f["tag"] for f in tree]
    if len(tags) != len(set(tags)):
        return False
    return all(representable(it) for f in tree if f["k"] == "g" for it in f["items"])


def mutants(b, d, mt, tree, members):
    all_tags = set(d["fields"])
    foreign_pool = sorted(all_tags - {m["tag"] for m in members} - set(d["header"]) - set(d["trailer"]))
    out = []
    for path, i, f, m, ms in list(walk(tree, members)):
        def mut(name, fn):
            t2 = copy.deepcopy(tree)
            fn(at(t2, path))
            out.append(("%s@%s.%d" % (name, "/".join("%d.%d" % p for p in path), i), t2))
        if m is not None and m["req"]:
            mut("drop_required", lambda c: c.pop(i))
        if f["k"] == "f":
            bv = b.badval(f["tag"])
            if bv is not None:
                mut("bad_value", lambda c: c[i].update(val=bv))
            mut("field_as_group", lambda c: c.__setitem__(i, {"k": "g", "tag": f["tag"], "items": [[{"k": "f", "tag": f["tag"], "val": "1"}]]}))
        else:
            mut("group_as_field", lambda c: c.__setitem__(i, {"k": "f", "tag": f["tag"], "val": "1"}))
            if m is not None and len(m["members"]) > 1:
                first = m["members"][0]["tag"]
                mut("drop_delimiter", lambda c: [it.pop(0) for it in c[i]["items"][:1] if it and it[0]["tag"] == first])
                if foreign_pool:
                    ft = b.rng.choice(foreign_pool)
                    mut("foreign_member", lambda c: c[i]["items"][0].append({"k": "f", "tag": ft, "val": b.val(ft)}))
                it0 = f["items"][0]
                if len(it0) >= 2:
                    # the first member displaced (behind the second / to the end), the rest still in dictionary order
                    mut("first_member_second", lambda c: c[i]["items"][0].__setitem__(slice(0, 2), [c[i]["items"][0][1], c[i]["items"][0][0]]))
                    mut("first_member_last", lambda c: c[i]["items"][0].append(c[i]["items"][0].pop(0)))
                if len(it0) >= 3:
                    mut("swap_members", lambda c: c[i]["items"][0].__setitem__(slice(1, 3), [c[i]["items"][0][2], c[i]["items"][0][1]]))
    t2 = copy.deepcopy(tree); t2.append({"k": "f", "tag": "99999", "val": "x"}); out.append(("unknown_tag", t2))
    if foreign_pool:
        ft = b.rng.choice(foreign_pool)
        t2 = copy.deepcopy(tree); t2.append({"k": "f", "tag": ft, "val": b.val(ft)}); out.append(("tag_of_other_message", t2))
    return [(n, t) for (n, t) in out if representable(t)]


_S = {}


def _schemas(dname, nperm, seed):
    key = (dname, nperm, seed)
    if key in _S:
        return _S[key]
    import sys
    import warnings
    warnings.simplefilter("ignore")
    if __import__("harness").REPO not in sys.path:
        sys.path.insert(0, __import__("harness").REPO)
    from asyncfix.protocol.schema import FIXSchema
    res = [FIXSchema(XMLS[dname])]
    rng = random.Random(seed)
    for k in range(nperm):
        tree = ET.parse(XMLS[dname])
        comps = tree.getroot().find("components")
        if comps is None or len(comps) < 2:
            break
        ch = list(comps)
        # structured declaration orders first (a component declared before / after / between the ones it includes),
        # then random shuffles
        if k == 0:
            ch.reverse()
        elif k == 1:
            ch.sort(key=lambda c: c.attrib.get("name", ""))
        elif k == 2:
            ch.sort(key=lambda c: c.attrib.get("name", ""), reverse=True)
        elif k == 3:
            ch = ch[1::2] + ch[0::2]
        else:
            rng.shuffle(ch)
        for c in list(comps):
            comps.remove(c)
        for c in ch:
            comps.append(c)
        res.append(FIXSchema(tree))
    _S[key] = res
    return res


def to_msg(mt, tree):
    from asyncfix import FIXMessage
    from asyncfix.message import FIXContainer

    def fill(c, fs):
        for f in fs:
            if f["k"] == "f":
                c.set(f["tag"], f["val"])
            else:
                c.set_group(f["tag"], [fill(FIXContainer(), it) for it in f["items"]])
        return c
    return fill(FIXMessage(mt), tree)


def execute(chunk):
    import warnings
    warnings.simplefilter("ignore")
    from asyncfix.errors import FIXMessageError
    out = []
    for r in chunk:
        r = dict(r)
        res = []
        for s in _schemas(r["dict"], r["nperm"], r["seed"]):
            try:
                m = to_msg(r["mt"], r["tree"])
                v = s.validate(m)
                res.append("true" if v is True else "ret:" + repr(v))
            except FIXMessageError as ex:
                res.append("exc:FIXMessageError" if type(ex) is FIXMessageError else "exc:" + type(ex).__name__)
            except Exception as ex:
                res.append("exc:" + type(ex).__name__)
        r["res"] = res
        out.append(r)
    return out


def run(ctx):
    out = Outcome()
    q = ctx.quick
    rng = random.Random(ctx.seed * 43 + 15)
    out.states = out.transitions = 1
    for dname, path in XMLS.items():
        d = fixdict.translate(path)
        df = os.path.join(ctx.sub("dict"), dname + ".json")
        with open(df, "w") as fh:
            json.dump(d, fh)
        b = Builder(d, rng)
        mts = sorted(d["messages"])
        if q:
            sess = [m for m in mts if m in ("A", "0", "1", "2", "3", "4", "5")]
            reqg = [m for m in mts if any(x["k"] == "g" and x["req"] for x in d["messages"][m]["members"])]
            def has_req_nested(ms, inside=False):
                return any(x["k"] == "g" and ((inside and x["req"]) or has_req_nested(x["members"], True)) for x in ms)
            reqn = [m for m in mts if has_req_nested(d["messages"][m]["members"])]      # a required group inside a group item
            mts = sorted(set(sess + [m for m in ("D", "8") if m in mts] + rng.sample(mts, min(6 if dname == "FIX44" else 4, len(mts))) + rng.sample(reqg, min(3, len(reqg)))
                             + rng.sample(reqn, min(2, len(reqn)))))
        recs = []
        n = 0
        nperm = (6 if q else 12)
        for mt in mts:
            members = d["messages"][mt]["members"]
            base = {"dict": dname, "mt": mt, "nperm": nperm, "seed": ctx.seed}
            insts = [("required_only", b.fields(members, "req")), ("some", b.fields(members, "some", nitems=2)), ("all", b.fields(members, "all"))]
            for name, tree in insts:
                recs.append(dict(base, id="%s.%s.%s" % (dname, mt, name), tree=tree)); n += 1
            mid = insts[1][1]
            ml = mutants(b, d, mt, mid, members)
            if q and len(ml) > 120:
                keep = [x for x in ml if x[0].startswith(("drop_required", "first_member"))]
                rest = [x for x in ml if not x[0].startswith(("drop_required", "first_member"))]
                ml = keep[:80] + rng.sample(rest, min(len(rest), max(40, 120 - len(keep[:80]))))
            for name, tree in ml:
                recs.append(dict(base, id="%s.%s.%s" % (dname, mt, name), tree=tree)); n += 1
            for k in range(3 if q else 20):
                recs.append(dict(base, id="%s.%s.rand%d" % (dname, mt, k), tree=b.fields(members, "some", nitems=rng.choice([1, 2])))); n += 1
        recs.append({"dict": dname, "mt": "ZZ", "nperm": nperm, "seed": ctx.seed, "id": dname + ".unknown_msgtype", "tree": []})
        ctx.log("%s: %d message types, %d instances/mutants; validating with the XML schema and %d component permutations" % (dname, len(mts), len(recs), nperm))
        chunks = [recs[i:i + 60] for i in range(0, len(recs), 60)]
        recs = [r for c in pmap(execute, chunks, force=True) for r in c]
        ev = [{"id": r["id"], "mt": r["mt"], "tree": r["tree"], "res": r["res"]} for r in recs]
        verd = tlc.evaluate(ctx.sub("eval" + dname), "SchemaValidEval", ev, shard_size=max(20, len(ev) // 16 + 1), jobs=16, env={"DICT_FILE": df}, timeout=2400, heap="4g")
        for rec, v in zip(recs, verd):
            out.traces += 1
            out.clause_hits["oracle_" + v["exp"]] = out.clause_hits.get("oracle_" + v["exp"], 0) + 1
            kind = (rec["id"].split(".") + ["", ""])[2].split("@")[0]
            out.clause_hits["kind_" + kind] = out.clause_hits.get("kind_" + kind, 0) + 1
            if not v["fails"]:
                out.traces_ok += 1
            for c in v["fails"]:
                out.failures.append({"clause": c, "triggers": [], "input": {k: rec[k] for k in ("id", "dict", "mt", "tree", "nperm", "seed")},
                                     "detail": {"id": rec["id"], "oracle": v["exp"], "why": v["why"], "validate": rec["res"], "fields": len(rec["tree"])}, "trace": None})
    out.samples = [{"id": recs[0]["id"], "tree": recs[0]["tree"][:6]}, {"id": recs[-2]["id"]}]
    out.extra["tlc_role"] = "TLC computes the three-valued validity of every generated message from the independently translated dictionary (no state space: states/transitions reported as 1)"
    out.assumptions = ["a required member of an optional component that is otherwise absent: unspecified", "header fields inside the body are not generated",
                       "value status follows spec/Lexical.tla"]
    return out


def replay(ctx, inp):
    out = Outcome()
    d = fixdict.translate(XMLS[inp["dict"]])
    df = os.path.join(ctx.sub("dict"), "d.json")
    with open(df, "w") as fh:
        json.dump(d, fh)
    rec = execute([inp])[0]
    verd = tlc.evaluate(ctx.sub("eval"), "SchemaValidEval", [{"id": rec["id"], "mt": rec["mt"], "tree": rec["tree"], "res": rec["res"]}], env={"DICT_FILE": df})
    out.traces = 1
    for c in verd[0]["fails"]:
        out.failures.append({"clause": c, "triggers": [], "input": inp, "detail": {"oracle": verd[0]["exp"], "why": verd[0]["why"], "validate": rec["res"]}, "trace": None})
    if not verd[0]["fails"]:
        out.traces_ok = 1
    out.states = out.transitions = 1
    out.samples = [rec["id"]]
    return out
