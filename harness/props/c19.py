"""C19 - field value validation matches the FIX datatype lexical spaces.

Spec: spec/Lexical.tla (three-valued recognisers per datatype, self-tested by TLC in
spec/LexicalMC.tla), spec/LexicalEval.tla.  Inputs: per datatype ALL strings up to length 3
(quick) / 4 (thorough) over a type-specific alphabet, boundary products for the fixed-layout
types, all enumerators and near misses of every enumerated field of both dictionaries; the
real SchemaField.validate_value of a field of that type decides, TLC judges."""
import itertools
import os
import random

from ..core import Outcome
from ..par import pmap
from .. import tlc

NUM_ALPHA = ["0", "1", "9", "-", "+", ".", "_", " ", "e", "٣"]
STR_ALPHA = ["a", "Z", "0", " ", "=", "\x01", "_", "é", "|"]
TIME_ALPHA = ["0", "1", "2", "5", "6", ":", ".", "-", " "]
ALPHAS = {"INT": NUM_ALPHA, "FLOAT": NUM_ALPHA, "QTY": NUM_ALPHA, "PRICE": NUM_ALPHA, "PRICEOFFSET": NUM_ALPHA, "AMT": NUM_ALPHA,
          "PERCENTAGE": NUM_ALPHA, "SEQNUM": NUM_ALPHA, "NUMINGROUP": NUM_ALPHA, "DAYOFMONTH": ["0", "1", "3", "2", "9", "-", " ", "+"],
          "BOOLEAN": ["Y", "N", "y", "n", " ", "0", "1"], "CHAR": STR_ALPHA, "STRING": STR_ALPHA, "MULTIPLEVALUESTRING": STR_ALPHA,
          "MULTIPLESTRINGVALUE": STR_ALPHA, "CURRENCY": ["U", "S", "D", "x", "1", "_", " ", "-", "é"],
          "COUNTRY": ["U", "S", "x", "1", "_", " ", "-"], "EXCHANGE": ["X", "N", "y", "1", "_", " ", "."],
          "LENGTH": NUM_ALPHA, "DATA": STR_ALPHA}


def fixed_layout_cases():
    years = ["0000", "1999", "2024", "2023", "1900", "2000", "9999"]
    months = ["00", "01", "02", "04", "12", "13"]
    days = ["00", "01", "28", "29", "30", "31", "32"]
    dates = [y + m + d for y in years for m in months for d in days]
    dates += ["2024011", "202401011", "2024-01-01", "20240101 ", " 20240101", "2024010a", "٢٠٢٤٠١٠١"]
    hours, mins, secs = ["00", "23", "24", "9"], ["00", "59", "60"], ["00", "59", "60", "61", "5"]
    fracs = ["", ".0", ".000", ".123", ".0000000", ".", ".12a", ".12"]
    times = [h + ":" + m + ":" + s + f for h in hours for m in mins for s in secs for f in fracs]
    times += ["1:2:3", "01:02", "010203", "01-02-03", "01:02:03 ", " 01:02:03", "01:02:03Z", "01:02:03+01"]
    out = {"UTCDATEONLY": dates, "LOCALMKTDATE": dates, "UTCTIMEONLY": times}
    stamps = [d + "-" + t for d in ["20240101", "20240229", "20230229", "20241301", "2024011", "00000101"] for t in times[:200:3]]
    stamps += ["20240101 01:02:03", "20240101T01:02:03", "20240101-1:2:3", "2024011-01:02:03", "20240101-01:02:03.123456", "20240101"]
    out["UTCTIMESTAMP"] = stamps
    my = [y + m for y in years for m in months] + [y + m + d for y in ["2024", "2023"] for m in ["01", "02", "13"] for d in days]
    my += [y + m + w for y in ["2024", "0000"] for m in ["01", "12", "13"] for w in ["w1", "w5", "w6", "w0", "W1", "ww", "w"]] + ["2024w1", "202401w12", "20240"]
    out["MONTHYEAR"] = my
    return out


def near_misses(e):
    res = {e.lower(), e.upper(), e + e[-1:], e[:-1], e + " ", " " + e, e + "0"}
    if len(e) == 1:
        res |= {chr(ord(e) + 1), chr(max(33, ord(e) - 1))}
    return [x for x in res if x]


def load():
    import sys
    if __import__("harness").REPO not in sys.path:
        sys.path.insert(0, __import__("harness").REPO)
    import warnings
    warnings.simplefilter("ignore")
    from asyncfix.protocol.schema import FIXSchema
    return {"FIX44": FIXSchema(__import__("harness").REPO + "/tests/FIX44.xml"), "TT": FIXSchema(__import__("harness").REPO + "/tests/TT-FIX44.xml")}


_SCH = {}


def execute(chunk):
    import warnings
    warnings.simplefilter("ignore")
    from asyncfix.errors import FIXMessageError
    if not _SCH:
        _SCH.update(load())
    out = []
    for r in chunk:
        r = dict(r)
        f = _SCH[r["dict"]]._tag2field[r["tag"]]
        def one(sv):
            try:
                v = f.validate_value(sv)
                return "true" if v is True else "ret:" + repr(v)
            except FIXMessageError as ex:
                return "exc:FIXMessageError" if type(ex) is FIXMessageError else "exc:" + type(ex).__name__
            except Exception as ex:
                return "exc:" + type(ex).__name__
        r["res"] = one(r["s"])
        if r.get("pair"):
            r["resneg"] = one("-" + r["s"])
            r.pop("pair")
        out.append(r)
    return out


def run(ctx):
    out = Outcome()
    q = ctx.quick
    w = ctx.sub("mc")
    tlc.prepare(w, "LexicalMC", "")
    rc, o, wall = tlc._java(["-workers", "1", "-metadir", os.path.join(w, "m"), "-config", "LexicalMC.cfg", "LexicalMC.tla"], w, None, 300, "2g")
    if rc != 0 or "No error has been found" not in o:
        raise tlc.MachineryError("Lexical self-test failed:\n" + o[-2000:])
    out.states = out.transitions = 81
    sch = load()
    rng = random.Random(ctx.seed * 41 + 19)
    recs = []
    n = 0
    maxlen = 3 if q else 4
    fixed = fixed_layout_cases()
    for dname, s in sch.items():
        bytype = {}
        for f in s._tag2field.values():
            if not f.values and f.tag != "16":
                bytype.setdefault(f.ftype.upper(), f)
        for t, f in sorted(bytype.items()):
            strings = [""]
            if t in ALPHAS:
                for L in range(1, maxlen + 1):
                    strings += ["".join(p) for p in itertools.product(ALPHAS[t], repeat=L)]
            strings += fixed.get(t, [])
            if t in ("INT", "QTY", "PRICE", "SEQNUM", "DAYOFMONTH"):
                strings += ["12345678901234567890", "-0", "00031", "31 ", "1,000", "１２", "1\n", "\t1", "0x10", "1__0", "Infinity", "NaN", "1E5", "1.5e-3"]
            if t in ("INT", "SEQNUM", "NUMINGROUP", "DAYOFMONTH", "LENGTH", "FLOAT", "QTY", "PRICE", "PRICEOFFSET", "AMT", "PERCENTAGE"):
                # magnitudes around and beyond the range of a double and beyond Python's int() digit limit
                big = ["9" * 25, "1" + "0" * 308, "9" * 308, "9" * 309, str(2 ** 1024), "9" * 400, "1" * 4300, "1" * 4301, "7" * 6000]
                strings += big + ["-" + x for x in big[:6]] + ["+" + big[3], big[3] + ".", big[3] + ".5", "0." + "0" * 400 + "1", big[3] + "x", " " + big[5]]
            for sv in strings:
                recs.append({"id": "v%d" % n, "dict": dname, "tag": f.tag, "type": t, "s": sv, "soh": "\x01", "enums": [], "special": ""})
                n += 1
            if t in ("INT", "FLOAT", "QTY", "PRICE", "PRICEOFFSET", "AMT", "PERCENTAGE"):
                for sv in strings:
                    if sv and not sv.startswith("-") and len(sv) < maxlen:
                        recs.append({"id": "v%d" % n, "dict": dname, "tag": f.tag, "type": t, "s": sv, "soh": "\x01", "enums": [], "special": "", "pair": True})
                        n += 1
        # EndSeqNo special case
        if "16" in s._tag2field:
            for sv in ["0", "1", "00", "-1", "a", "10"]:
                recs.append({"id": "v%d" % n, "dict": dname, "tag": "16", "type": "SEQNUM", "s": sv, "soh": "\x01", "enums": [], "special": "endseqno"})
                n += 1
        enum_fields = [f for f in s._tag2field.values() if f.values]
        if q:
            enum_fields = rng.sample(enum_fields, min(60, len(enum_fields)))
        for f in enum_fields:
            vals = list(f.values.keys())
            cand = set(vals)
            for e in vals[:40]:
                cand |= set(near_misses(e))
            cand |= {"", " ", "0", "ZZZ", "\x01"}
            for sv in sorted(cand):
                recs.append({"id": "v%d" % n, "dict": dname, "tag": f.tag, "type": "ENUM", "s": sv, "soh": "\x01", "enums": vals, "special": ""})
                n += 1
    ctx.log("validating %d (field, string) pairs with the real SchemaField.validate_value" % len(recs))
    chunks = [recs[i:i + 4000] for i in range(0, len(recs), 4000)]
    recs = [r for c in pmap(execute, chunks, force=True) for r in c]
    verd = tlc.evaluate(ctx.sub("eval"), "LexicalEval", recs, shard_size=max(500, len(recs) // 16 + 1), jobs=16, timeout=2400, heap="4g")
    byexp = {}
    for rec, v in zip(recs, verd):
        out.traces += 1
        byexp[v["exp"]] = byexp.get(v["exp"], 0) + 1
        if not v["fails"]:
            out.traces_ok += 1
        for c in v["fails"]:
            out.failures.append({"clause": c, "triggers": [], "input": {k: rec[k] for k in ("id", "dict", "tag", "type", "s", "soh", "enums", "special")},
                                 "detail": {"type": rec["type"], "field_tag": rec["tag"], "dict": rec["dict"], "string": rec["s"], "string_repr": repr(rec["s"]),
                                            "validate_value": rec["res"], "in_lexical_space": v["exp"]}, "trace": None})
    out.clause_hits.update({"oracle_" + k: v for k, v in byexp.items()})
    out.samples = [{"type": r["type"], "s": r["s"], "res": r["res"]} for r in recs[5:7] + recs[-1:]]
    out.exhaustive = True
    out.extra.update({"pairs": len(recs), "max_string_length": maxlen})
    out.assumptions = ["the list of 'unspecified' lexical decisions is in the header of spec/Lexical.tla", "FIX 4.4 datatype definitions (int may have leading zeros; UTCTimestamp with whole seconds or milliseconds)"]
    return out


def replay(ctx, inp):
    out = Outcome()
    rec = execute([inp])[0]
    verd = tlc.evaluate(ctx.sub("eval"), "LexicalEval", [rec])
    out.traces = 1
    for c in verd[0]["fails"]:
        out.failures.append({"clause": c, "triggers": [], "input": inp, "detail": {"res": rec["res"], "exp": verd[0]["exp"]}, "trace": None})
    if not verd[0]["fails"]:
        out.traces_ok = 1
    out.states = out.transitions = 1
    out.samples = [rec["s"]]
    return out
