"""X01 (beyond the listed properties) - transport life-cycle of AsyncFIXClient: first connect(),
the reader task's reconnect timer, connection loss, application disconnect()/connect(), server
reachable or not.  Spec: spec/ReconnectFn.tla (step function + clauses Q1..Q6), spec/Reconnect.tla
(behaviours, TLC), spec/ReconnectEval.tla (recorded executions).  Every behaviour of the bounded
model is replayed on a real AsyncFIXClient under the virtual clock with asyncio.open_connection
replaced; TLC-simulated longer behaviours with larger heartbeat intervals are replayed as well."""
import asyncio

from .. import tlc
from ..core import Outcome
from ..par import pmap
from ..net import VLoop, install_clock, RecClient, FakeWriter, Journaler, FIXProtocol44, ConnectionState, watchdog, Livelock, EPOCH

CL = ["Q1", "Q2", "Q3", "Q4", "Q5", "Q6"]


def cfg(H, horizon, maxev, dump, props=True):
    s = "SPECIFICATION Spec\nCONSTANTS\n H = %d\n Horizon = %d\n MaxEv = %d\n Dump = %s\nVIEW View\n" % (H, horizon, maxev, "TRUE" if dump else "FALSE")
    if props:
        s += "".join("PROPERTY A_%s\n" % c for c in CL)
    if dump:
        s += "INVARIANT Inv_DumpState\n"
    return s + "CHECK_DEADLOCK FALSE\n"


class LinkedWriter(FakeWriter):
    """close() is seen by the paired reader as EOF, as with a real transport (connection_lost -> feed_eof)."""

    def __init__(self, reader, loop):
        super().__init__(lambda b: None, [])
        self.reader, self.loop = reader, loop

    def close(self):
        if not self.closed:
            self.closed = True
            r = self.reader
            self.loop.call_soon(lambda: (None if (r._eof or r.exception() is not None) else r.feed_eof()))


def run_trace(spec):
    """spec = {id, H, evs}; events as in ReconnectFn!Step."""
    loop = VLoop()
    install_clock(loop)
    rec = {"id": spec["id"], "H": spec["H"], "steps": []}
    st = {"up": True, "att": 0, "pairs": []}

    async def fake_open(host, port):
        st["att"] += 1
        await asyncio.sleep(0)
        if not st["up"]:
            raise ConnectionRefusedError("refused")
        r = asyncio.StreamReader(loop=loop)
        w = LinkedWriter(r, loop)
        st["pairs"].append((r, w))
        return r, w

    old = asyncio.open_connection
    asyncio.open_connection = fake_open
    try:
        with watchdog(120):
            c = RecClient(FIXProtocol44(), "A", "B", Journaler(), "h", 1, heartbeat_period=spec["H"])

            def obs():
                return {"cs": c.connection_state.name, "sock": c._socket_reader is not None, "up": st["up"]}
            for ev in spec["evs"]:
                pre = obs()
                a0 = st["att"]
                exc = "none"
                t = ev["t"]
                if t in ("start", "appconnect"):
                    ok, r = loop.run_coro(c.connect())
                    if ok and isinstance(r, BaseException):
                        exc = type(r).__name__
                elif t == "tick":
                    loop.advance(1.0)
                elif t == "drop":
                    r, w = st["pairs"][-1]
                    if c._socket_reader is r and not r._eof and r.exception() is None:
                        how = ev.get("how", "eof")
                        if how == "eof":
                            r.feed_eof()
                        elif how == "reset":
                            r.set_exception(ConnectionResetError("reset"))
                        else:
                            r.set_exception(OSError("transport error"))
                        loop.run_idle()
                elif t == "appdisc":
                    ok, r = loop.run_coro(c.disconnect(ConnectionState[ev["st"]]))
                    if ok and isinstance(r, BaseException):
                        exc = type(r).__name__
                elif t == "up":
                    st["up"] = True
                elif t == "down":
                    st["up"] = False
                cb, c.cb = c.cb, []
                e2 = dict(ev)
                e2.setdefault("now", int(round(loop.time() - EPOCH)))
                rec["steps"].append({"ev": e2, "pre": pre, "out": {"att": st["att"] - a0, "cb": cb, "exc": exc}, "post": obs()})
    except (Exception, Livelock) as ex:
        rec["harness_error"] = type(ex).__name__ + ":" + str(ex)[:100]
    finally:
        asyncio.open_connection = old
        try:
            loop.shutdown()
        except BaseException:
            pass
    return rec


def evaluate(ctx, out, specs, recs):
    verd = tlc.evaluate(ctx.sub("eval"), "ReconnectEval", recs, shard_size=max(20, len(recs) // 16 + 1), jobs=16, timeout=1800)
    for sp, r, v in zip(specs, recs, verd):
        out.traces += 1
        if r.get("harness_error"):
            out.failures.append({"clause": "HARNESS", "triggers": [], "input": sp, "detail": r["harness_error"], "trace": None})
            continue
        out.hit({"steps": len(r["steps"]), "connection_attempts": v["natt"]})
        if v["drift"]:
            out.drift += len(v["drift"])
            if len(out.drift_samples) < 5:
                d = v["drift"][0]
                out.drift_samples.append({"id": r["id"], "step": d["step"], "fields": d["fields"], "rec": r["steps"][d["step"] - 1]})
        if not v["fails"] and not v["drift"]:
            out.traces_ok += 1
        seen = set()
        for f in v["fails"]:
            if f["clause"] in seen:
                continue
            seen.add(f["clause"])
            out.failures.append({"clause": f["clause"], "triggers": [], "input": sp,
                                 "detail": {"step": f["step"], "rec": r["steps"][f["step"] - 1], "events": [s["ev"] for s in r["steps"][:f["step"]]]}, "trace": None})


def run(ctx):
    out = Outcome()
    q = ctx.quick
    insts = [(1, 8, 3), (2, 10, 2)] if q else [(1, 9, 4), (2, 12, 3), (3, 14, 3)]
    specs = []
    for H, hz, me in insts:
        r = tlc.model_check(ctx.sub("mc"), "Reconnect", cfg(H, hz, me, False), timeout=1800, heap="8g", tag="rc%d" % H)
        out.add_tlc(r)
        ctx.log("design model Reconnect H=%d horizon=%ds env events<=%d: %d distinct states, %d transitions; Q1..Q6 hold" % (H, hz, me, r["distinct"], r["generated"]))
        for nv in ("NeverReattaches", "NeverFails"):     # non-vacuity: TLC must refute these
            r0 = tlc.model_check(ctx.sub("mcv"), "Reconnect", cfg(H, hz, me, False, props=False) + "INVARIANT %s\n" % nv, timeout=900, expect_violation=True, tag="v%d%s" % (H, nv))
            if not r0["violated"]:
                raise tlc.MachineryError("Reconnect: %s should be refuted (vacuity self-check)" % nv)
        d = tlc.dump_edges(ctx.sub("dump"), "Reconnect", cfg(H, hz - 2, me, True, props=False), marker="STATE", timeout=1800, tag="d%d" % H)
        for i, p in enumerate(d["edges"]):
            specs.append({"id": "g%d_%d" % (H, i), "H": H, "evs": list(p) + [{"t": "tick"}] * (2 * H + 3)})
    ng = len(specs)
    for k, H in enumerate([3, 5, 10, 30] if q else [3, 5, 10, 30, 60]):
        sim = tlc.simulate(ctx.sub("sim"), "Reconnect", cfg(H, 6 * H + 10, 8, True, props=False), num=60 if q else 600, depth=8 * H + 30,
                           seed=ctx.seed + 31 + k, marker="STATE", timeout=900)
        from .c17 import maximal
        for i, p in enumerate(maximal(sim["items"])):
            specs.append({"id": "s%d_%d" % (H, i), "H": H, "evs": list(p)})
    ctx.log("executing %d behaviours on a real AsyncFIXClient (%d model states, %d simulated)" % (len(specs), ng, len(specs) - ng))
    recs = pmap(run_trace, specs)
    evaluate(ctx, out, specs, recs)
    out.samples = [{"id": r["id"], "events": [s["ev"]["t"] for s in r["steps"]][:40]} for r in recs[ng // 2:ng // 2 + 1] + recs[-1:]]
    out.exhaustive = True
    out.assumptions += ["events happen at whole seconds; asyncio.open_connection is replaced by a coroutine that yields once and then succeeds or raises ConnectionRefusedError",
                        "a connection loss noticed while the reader task is between two polls (socket attached by an application connect()) is not generated"]
    return out


def replay(ctx, inp):
    out = Outcome()
    rec = run_trace(inp)
    evaluate(ctx, out, [inp], [rec])
    out.states = out.transitions = 1
    out.samples = [{"id": rec["id"], "steps": rec["steps"][:30]}]
    return out
