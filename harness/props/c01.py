"""C01 - encode/decode round trip preserves every well-formed message.

Spec: spec/GroupCodec.tla (Flatten, the decoder's group-context algorithm Parse as a step
machine, WellFormedTree); spec/GroupCodecMC.tla (TLC generates every well-formed tree over
a small table with a reference grammar machine and checks Parse o Flatten = id);
spec/GroupCodecEval.tla (real codec: trees over the LIVE 29-group table of the working tree,
adversarial values, all encoding modes; independent byte tokeniser Wire.tla)."""
import json
import os
import random

from ..core import Outcome
from ..par import pmap
from .. import tlc
from ..net import Codec, FIXProtocol44, FIXSession, FIXMessage, FMsg, FTag

POOL = ["a", "=", "a=b", "10=000", "9=12", "8=FIX.", "x8=FIX.4.4y", "35=A", "10=", "8=FIX.4.4", " ", "a b", "|", "0", "-1.5", "Y",
        "x" * 120, "\xe9", "\xff", "\xa0"] + [chr(c) for c in range(0x21, 0x7f, 3)]
HEADER = {"8", "9", "35", "10", "34", "49", "52", "56"}


def live_table():
    t = FIXProtocol44.repeating_groups
    return {int(g): [int(m) for m in ms] for g, ms in t.items()}


def deep_members(g, table, seen=None):
    seen = seen or set()
    out = set(table[g])
    for m in table[g]:
        if m in table and m != g and m not in seen:
            out |= deep_members(m, table, seen | {g})
    return out


class Gen:
    def __init__(self, table, rng):
        self.t = table
        self.rng = rng

    def val(self):
        return self.rng.choice(POOL)

    def item(self, g, shape, depth):
        ms = self.t[g]
        if shape == "delim":
            pick = [ms[0]]
        elif shape == "all":
            pick = list(ms)
        elif shape == "second":
            pick = [ms[0]] + ms[2::2]
        else:   # delimiter + one optional member
            pick = [ms[0]] + ([shape] if shape != ms[0] else [])
        fields = []
        for m in pick:
            if m in self.t:
                if depth >= 4 or m == g:
                    continue
                # a nested group must not be followed by one of its own (deep) members in this item
                fields.append(self.group(m, self.rng.choice([1, 2]), self.rng.choice(["delim", "all"]), depth + 1))
            else:
                fields.append({"k": "f", "tag": m, "val": self.val()})
        # drop fields that would be absorbed by a preceding nested group
        out = []
        blocked = set()
        for f in fields:
            if f["tag"] in blocked:
                continue
            out.append(f)
            if f["k"] == "g":
                blocked |= deep_members(f["tag"], self.t)
        if not out or out[0]["k"] != "f" and out[0]["tag"] != ms[0]:
            out = [{"k": "f", "tag": ms[0], "val": self.val()}] if ms[0] not in self.t else out
        return out

    def group(self, g, count, shape, depth=1):
        return {"k": "g", "tag": g, "items": [self.item(g, shape, depth) for _ in range(count)]}


def build_cases(rng, quick):
    table = live_table()
    gen = Gen(table, rng)
    cases = []
    groups = sorted(table)
    for g in groups:
        if table[g][0] in table:
            continue     # delimiter is itself a group: not expressible as a plain first field
        shapes = ["delim", "all", "second"] + [m for m in table[g][1:]]
        for shape in shapes:
            for count in ((1, 2) if quick else (1, 2, 3)):
                tree = [gen.group(g, count, shape)]
                pre = rng.random() < 0.5
                post = rng.random() < 0.5
                if pre:
                    tree.insert(0, {"k": "f", "tag": 1, "val": gen.val()})
                if post and 58 not in deep_members(g, table):
                    tree.append({"k": "f", "tag": 58, "val": gen.val()})
                cases.append(tree)
    for _ in range(40 if quick else 400):      # two different groups side by side + plain fields only
        a, b = rng.sample(groups, 2)
        if table[a][0] in table or table[b][0] in table or b in deep_members(a, table) or (set(table[b]) & deep_members(a, table)):
            continue
        cases.append([gen.group(a, rng.choice([1, 2]), "all"), gen.group(b, rng.choice([1, 2]), rng.choice(["delim", "all"]))])
    for v in POOL:
        cases.append([{"k": "f", "tag": 58, "val": v}, {"k": "f", "tag": 11, "val": "id"}])
        cases.append([{"k": "f", "tag": 1, "val": "acc"}, {"k": "f", "tag": 58, "val": v}])
    # size regimes: BodyLength with 3, 4 and 5 digits, plain and with framing look-alikes inside the long value
    for L in (880, 1100, 9800, 10100, 12000):
        for v in ("x" * L, "x" * L + "8=FIX.4.4", "8=FIX." + "y" * L, "q" * (L // 2) + "\x0210=000" + "r" * (L // 2), "9=12" + "z" * L + "10="):
            cases.append([{"k": "f", "tag": 11, "val": "id"}, {"k": "f", "tag": 58, "val": v}])
    cases.append([])
    return table, cases


def to_msg(tree, mtype):
    def fill(c, fields):
        for f in fields:
            if f["k"] == "f":
                c.set(f["tag"], f["val"])
            else:
                for it in f["items"]:
                    from asyncfix.message import FIXContainer
                    sub = FIXContainer()
                    fill(sub, it)
                    c.add_group(f["tag"], sub)
    m = FIXMessage(mtype)
    fill(m, tree)
    return m


def from_container(c):
    out = []
    for t in c.tags:
        if c.is_group(t):
            out.append({"k": "g", "tag": int(t), "items": [from_container(x) for x in c.get_group_list(t)]})
        else:
            v = c[t]
            out.append({"k": "f", "tag": int(t), "val": list(str(v).encode("latin-1", "replace"))})
    return out


def bytesify(tree):
    out = []
    for f in tree:
        if f["k"] == "f":
            out.append({"k": "f", "tag": f["tag"], "val": list(f["val"].encode("latin-1"))})
        else:
            out.append({"k": "g", "tag": f["tag"], "items": [bytesify(i) for i in f["items"]]})
    return out


def execute(a):
    rid, tree, mode, mtype, nout = a
    codec = Codec(FIXProtocol44())
    s = FIXSession(1, "TGT", "SND")
    s.next_num_out = nout
    s.next_num_in = 1
    rec = {"id": rid, "tree": bytesify(tree), "mode": mode, "type": mtype, "sender": list(b"SND"), "target": list(b"TGT"),
           "nout_before": nout, "carried": 0, "extra_hdr": 0, "enc_exc": "none", "bytes": [], "dec_msg": False, "dec_body": [],
           "dec_type": "", "consumed": -1, "raw_equal": False, "hdr49": [], "hdr56": [], "hdr34": -1, "nout_after": nout, "followed_ok": True}
    try:
        m = to_msg(tree, mtype)
        raw_flag = False
        if mode in ("raw", "pd", "seqreset"):
            rec["carried"] = 4242
            m[FTag.MsgSeqNum] = 4242
            raw_flag = mode == "raw"
        if mode == "pd":
            m[FTag.PossDupFlag] = "Y"
            rec["tree"] = rec["tree"] + [{"k": "f", "tag": 43, "val": list(b"Y")}]
        if mode in ("pdN", "pdNc"):
            # PossDupFlag present but "N": an ordinary transmission, the allocated number goes on the wire
            # (pdNc: the message also carries a stale MsgSeqNum, e.g. a decoded message sent again)
            if mode == "pdNc":
                m[FTag.MsgSeqNum] = 4242
            m[FTag.PossDupFlag] = "N"
            rec["tree"] = rec["tree"] + [{"k": "f", "tag": 43, "val": list(b"N")}]
        txt = codec.encode(m, s, raw_seq_num=raw_flag)
        b = txt.encode("latin-1")
        rec["bytes"] = list(b)
        rec["nout_after"] = s.next_num_out
    except Exception as ex:
        rec["enc_exc"] = type(ex).__name__
        return rec
    try:
        dm, n, raw = codec.decode(b)
        rec["consumed"] = int(n)
        rec["raw_equal"] = raw == b
        if dm is not None:
            rec["dec_msg"] = True
            body = [f for f in from_container(dm) if str(f["tag"]) not in HEADER]
            rec["dec_body"] = body
            rec["dec_type"] = str(dm.msg_type.value if hasattr(dm.msg_type, "value") else dm.msg_type)
            rec["hdr49"] = list(str(dm.get(49, "")).encode("latin-1"))
            rec["hdr56"] = list(str(dm.get(56, "")).encode("latin-1"))
            try:
                rec["hdr34"] = int(dm.get(34, "-1"))
            except ValueError:
                rec["hdr34"] = -1
    except Exception as ex:
        rec["dec_exc"] = type(ex).__name__
    # the same frame with more traffic behind it in the buffer: same message, exactly this frame consumed
    try:
        s2 = FIXSession(1, "TGT", "SND")
        s2.next_num_out = 77
        follow = codec.encode(FIXMessage(FMsg.HEARTBEAT), s2).encode("latin-1")
        for tail in (follow, follow[:11], b"8=FIX"):
            dm2, n2, raw2 = codec.decode(b + tail)
            ok = dm2 is not None and int(n2) == len(b) and raw2 == b and \
                [f for f in from_container(dm2) if str(f["tag"]) not in HEADER] == rec["dec_body"]
            if not ok:
                rec["followed_ok"] = False
                rec["followed_detail"] = {"tail": len(tail), "consumed": int(n2), "len": len(b), "msg": dm2 is not None}
                break
    except Exception as ex:
        rec["followed_ok"] = False
        rec["followed_detail"] = {"exc": type(ex).__name__}
    return rec


def run(ctx):
    out = Outcome()
    q = ctx.quick
    r = tlc.model_check(ctx.sub("mc"), "GroupCodecMC", "SPECIFICATION Spec\nCONSTANTS\n MaxToks = %d\nINVARIANT Inv_GeneratedAreWellFormed\nINVARIANT Inv_RoundTrip\nCHECK_DEADLOCK FALSE\n" % (8 if q else 11),
                        timeout=2400, heap="10g")
    out.add_tlc(r)
    ctx.log("GroupCodec model: %d well-formed trees/states over the small table: Parse o Flatten = id" % r["distinct"])
    rng = random.Random(ctx.seed * 29 + 1)
    table, cases = build_cases(rng, q)
    tf = os.path.join(ctx.sub("tbl"), "table.json")
    with open(tf, "w") as fh:
        json.dump([{"g": g, "members": ms} for g, ms in sorted(table.items())], fh)
    jobs = []
    for i, tree in enumerate(cases):
        mode = ["alloc", "pdN", "raw", "pd", "seqreset", "pdNc", "alloc"][i % 7] if i % 3 == 0 else "alloc"
        mtype = "4" if mode == "seqreset" else rng.choice(["D", "8", "XYZ", "AE", "j"])
        nout = rng.choice([1, 7, 1000000, 2 ** 31 - 5])
        jobs.append(("t%d" % i, tree, mode, mtype, nout))
    ctx.log("%d trees over the live table (%d groups) through the real Codec.encode / Codec.decode" % (len(jobs), len(table)))
    recs = pmap(execute, jobs)
    verd = tlc.evaluate(ctx.sub("eval"), "GroupCodecEval", recs, shard_size=max(40, len(recs) // 16 + 1), jobs=16, env={"TABLE_FILE": tf},
                        timeout=2400, heap="4g")
    nwf = 0
    for rec, v, job in zip(recs, verd, jobs):
        out.traces += 1
        if not v["wf"]:
            out.clause_hits["generated_not_well_formed(skipped)"] = out.clause_hits.get("generated_not_well_formed(skipped)", 0) + 1
            continue
        nwf += 1
        if not v["fails"]:
            out.traces_ok += 1
        for c in v["fails"]:
            out.failures.append({"clause": c, "triggers": [], "input": {"id": job[0], "tree": job[1], "mode": job[2], "type": job[3], "nout": job[4]},
                                 "detail": {"tree": json.dumps(job[1])[:300], "mode": job[2], "bytes": repr(bytes(rec["bytes"]))[:300],
                                            "enc_exc": rec["enc_exc"], "dec_msg": rec["dec_msg"], "consumed": rec["consumed"]}, "trace": None})
    out.clause_hits["well_formed_trees_checked"] = nwf
    out.samples = [{"tree": j[1], "mode": j[2], "type": j[3]} for j in jobs[:1] + jobs[len(jobs) // 2:len(jobs) // 2 + 1]]
    out.extra.update({"live_groups": len(table), "trees": len(jobs)})
    out.assumptions = ["values are single-byte text without SOH, non-empty", "trees whose byte stream would be ambiguous without a dictionary are outside the property (WellFormedTree decides, evaluated by TLC)"]
    return out


def replay(ctx, inp):
    out = Outcome()
    table = live_table()
    tf = os.path.join(ctx.sub("tbl"), "table.json")
    with open(tf, "w") as fh:
        json.dump([{"g": g, "members": ms} for g, ms in sorted(table.items())], fh)
    rec = execute((inp["id"], inp["tree"], inp["mode"], inp["type"], inp["nout"]))
    verd = tlc.evaluate(ctx.sub("eval"), "GroupCodecEval", [rec], env={"TABLE_FILE": tf})
    out.traces = 1
    for c in verd[0]["fails"]:
        out.failures.append({"clause": c, "triggers": [], "input": inp, "detail": repr(bytes(rec["bytes"]))[:300], "trace": None})
    if not verd[0]["fails"]:
        out.traces_ok = 1
    out.states = out.transitions = 1
    out.samples = [inp["id"]]
    return out
