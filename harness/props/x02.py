"""X02 (beyond the listed properties) - transport life-cycle of AsyncFIXDummyServer: connect(), incoming
connections through _handle_accept (also while a connection is attached), loss of the attached or of an
earlier connection, application disconnect(), and the session traffic of Session1 / Endpoint on whichever
connection is attached.  Spec: spec/AcceptFn.tla (step function on top of Endpoint.tla + clauses A1..A6),
spec/Accept.tla (behaviours, TLC), spec/AcceptEval.tla (recorded executions).  A shortest path to every
state of the bounded model is replayed on a real AsyncFIXDummyServer, followed by every event of the
alphabet; seeded random walks over the same alphabet go deeper."""
import asyncio
import json
import os
import random

from .. import tlc, session
from ..core import Outcome
from ..par import pmap
from ..net import (VLoop, install_clock, RecServer, Journaler, FIXProtocol44, ConnectionState, watchdog, Livelock, PeerCodec,
                   parse_frame)
from .x01 import LinkedWriter

KFS = " KF_BackwardReset = TRUE\n KF_StoredInLag = FALSE\n KF_WriteBeforeJournal = FALSE\n"


def cfg(depth, maxconn, dump, props=True, kf=False):
    s = ("SPECIFICATION Spec\nCONSTANTS\n" + KFS + " KF_AcceptFallThrough = %s\n Depth = %d\n MaxConn = %d\n MaxN = 9\n Dump = %s\n"
         "VIEW View\nCONSTRAINT Bound\n" % ("TRUE" if kf else "FALSE", depth, maxconn, "TRUE" if dump else "FALSE"))
    if props:
        s += "PROPERTY A_X\n"
    if dump:
        s += "INVARIANT Inv_DumpState\n"
    return s + "CHECK_DEADLOCK FALSE\n"


def alphabet(ctx, maxconn):
    w = ctx.sub("alpha")
    tlc.prepare(w, "Accept", "")
    with open(os.path.join(w, "AlphaX.tla"), "w") as fh:
        fh.write("---- MODULE AlphaX ----\nEXTENDS Accept\nASSUME AlphabetDump\n====\n")
    with open(os.path.join(w, "AlphaX.cfg"), "w") as fh:
        fh.write("CONSTANTS\n" + KFS + " KF_AcceptFallThrough = FALSE\n Depth = 1\n MaxConn = %d\n MaxN = 9\n Dump = FALSE\n" % maxconn)
    rc, out, _ = tlc._java(["-workers", "1", "-metadir", os.path.join(w, "m"), "-config", "AlphaX.cfg", "AlphaX.tla"], w, None, 120, "1g")
    items = tlc.parse_printed(out, "ALPHA")
    if not items:
        raise tlc.MachineryError("could not obtain the X02 event alphabet from TLC:\n" + out[-2000:])
    return sorted(items[0], key=lambda e: json.dumps(e, sort_keys=True))


class _FakeServer:
    async def __aenter__(self):
        return self

    async def __aexit__(self, *a):
        return False

    async def serve_forever(self):
        await asyncio.get_event_loop().create_future()


def run_trace(spec):
    loop = VLoop()
    install_clock(loop)
    rec = {"id": spec["id"], "steps": []}
    conns = []      # (reader, writer); connection id = index + 1
    marks = []      # frames of each writer already reported

    async def fake_start_server(cb, host, port, **k):
        return _FakeServer()

    old = asyncio.start_server
    asyncio.start_server = fake_start_server
    try:
        srv = RecServer(FIXProtocol44(), "A", "B", Journaler(), "h", 1, heartbeat_period=30)
        peer = PeerCodec("B", "A")

        def cur():
            w = srv._socket_writer
            if w is None:
                return 0
            for i, (_, cw) in enumerate(conns):
                if cw is w:
                    return i + 1
            return -1

        def obs():
            s = srv._session
            return {"cs": srv.connection_state.name, "cur": cur(), "open": [i + 1 for i, (_, w) in enumerate(conns) if not w.closed],
                    "nin": s.next_num_in, "nout": s.next_num_out, "sock": srv._socket_writer is not None}

        def proj():
            s = srv._session
            return {"nin": s.next_num_in, "nout": s.next_num_out, "treq": 0 if srv._test_req_id is None else int(srv._test_req_id)}

        for ev in spec["evs"]:
            with watchdog(30):
                pre = obs()
                open0 = set(pre["open"])
                newid = len(conns) + 1
                exc = "none"
                t = ev["t"]
                if t == "start":
                    ok, r = loop.run_coro(srv.connect())
                    if ok and isinstance(r, BaseException):
                        exc = type(r).__name__
                elif t == "accept":
                    r = asyncio.StreamReader(loop=loop)
                    w = LinkedWriter(r, loop)
                    conns.append((r, w))
                    marks.append(0)
                    open0.add(newid)
                    loop.run_coro(srv._handle_accept(r, w))
                    loop.advance(1.0)        # the reader task polls for a new socket once per second
                elif t == "drop":
                    r, w = conns[ev["c"] - 1]
                    if not r._eof and r.exception() is None:
                        r.feed_eof()
                        loop.run_idle()
                elif t == "appdisc":
                    ok, r = loop.run_coro(srv.disconnect(ConnectionState[ev["st"]], logout_message={"none": None, "text": "bye"}[ev["logout"]]))
                    if ok and isinstance(r, BaseException):
                        exc = type(r).__name__
                elif t == "frame":
                    r, w = conns[ev["c"] - 1]
                    f = session.resolve(proj(), {"t": "frame", "f": ev["f"]}, 0)["f"]
                    if not r._eof and r.exception() is None:
                        r.feed_data(peer.frame(f["kind"], f["seq"], pd=f["pd"], gf=f["gf"], newseq=None, b=f["b"], e=f["e"],
                                               trid=f["trid"] or None, pay=f["pay"][3:] if f["pay"] else None, hdr=f["hdr"]))
                        loop.run_idle()
                elif t == "send":
                    m = session.resolve(proj(), {"t": "send", "m": ev["m"]}, 0)["m"]
                    ok, r = loop.run_coro(srv.send_msg(session.build_msg(m)))
                    if ok and isinstance(r, BaseException):
                        exc = type(r).__name__
                wrote = []
                for i, (_, w) in enumerate(conns):
                    for b in w.log[marks[i]:]:
                        f = parse_frame(b)
                        wrote.append({"c": i + 1, "kind": f["kind"], "seq": f["seq"]})
                    marks[i] = len(w.log)
                post = obs()
                cb, srv.cb = srv.cb, []
                deliv, srv.deliv = srv.deliv, []
                srv.deliv_pay = []
                rec["steps"].append({"ev": ev, "pre": pre, "newid": newid, "post": post,
                                     "out": {"cb": cb, "deliv": deliv, "exc": exc, "wrote": wrote,
                                             "closed": sorted(open0 - set(post["open"]))}})
    except (Exception, Livelock) as ex:
        rec["harness_error"] = type(ex).__name__ + ":" + str(ex)[:100]
    finally:
        asyncio.start_server = old
        try:
            loop.shutdown()
        except BaseException:
            pass
    return rec


def evaluate(ctx, out, specs, recs):
    verd = tlc.evaluate(ctx.sub("eval"), "AcceptEval", recs, shard_size=max(20, len(recs) // 16 + 1), jobs=16, timeout=1800,
                        cfg_text="CONSTANTS\n" + KFS + " KF_AcceptFallThrough = FALSE\n")
    for sp, r, v in zip(specs, recs, verd):
        out.traces += 1
        if r.get("harness_error"):
            out.failures.append({"clause": "HARNESS", "triggers": [], "input": sp, "detail": r["harness_error"], "trace": None})
            continue
        out.hit({"steps": len(r["steps"]), "accepts": v["nacc"]})
        if v["drift"]:
            out.drift += len(v["drift"])
            if len(out.drift_samples) < 5:
                d = v["drift"][0]
                out.drift_samples.append({"id": r["id"], "step": d["step"], "fields": d["fields"], "model": d["model"], "rec": r["steps"][d["step"] - 1]})
        if not v["fails"] and not v["drift"]:
            out.traces_ok += 1
        seen = set()
        for f in v["fails"]:
            if f["clause"] in seen:
                continue
            seen.add(f["clause"])
            out.failures.append({"clause": f["clause"], "triggers": [], "input": sp,
                                 "detail": {"step": f["step"], "rec": r["steps"][f["step"] - 1], "events": [s["ev"] for s in r["steps"][:f["step"]]]}, "trace": None})


def random_walk(rng, alpha, tid, n, maxconn):
    evs = [{"t": "start"}]
    nacc = 0
    logon = next(e for e in alpha if e["t"] == "frame" and e["c"] == 1 and e["f"]["kind"] == "LOGON" and e["f"]["rel"] == 0 and e["f"]["hdr"] == "ok")
    for _ in range(n):
        x = rng.random()
        if x < 0.18 and nacc < maxconn:
            evs.append({"t": "accept"})
            nacc += 1
            if rng.random() < 0.6:
                evs.append(dict(logon, c=nacc))      # the new peer logs on (ignored when the connection was refused)
            continue
        e = rng.choice(alpha)
        if e["t"] == "accept" or (e["t"] == "start" and rng.random() < 0.7):
            continue
        if e["t"] in ("frame", "drop") and e["c"] > nacc:
            continue
        evs.append(e)
    return {"id": tid, "evs": evs}


def run(ctx):
    out = Outcome()
    q = ctx.quick
    depth, maxconn = (6, 3) if q else (8, 3)
    r = tlc.model_check(ctx.sub("mc"), "Accept", cfg(depth, maxconn, False), timeout=2400, heap="8g")
    out.add_tlc(r)
    ctx.log("design model Accept (depth %d, <= %d connections): %d distinct states, %d transitions; A1..A6 hold" % (depth, maxconn, r["distinct"], r["generated"]))
    r0 = tlc.model_check(ctx.sub("mckf"), "Accept", cfg(4, 2, False, kf=True), timeout=900, expect_violation=True, tag="kf")
    if not r0["violated"]:
        raise tlc.MachineryError("Accept with KF_AcceptFallThrough should violate A_X (vacuity self-check)")
    for nv in ("NeverSecondSession", "NeverRefused", "NeverSelfDetach"):     # non-vacuity: TLC must refute these
        r1 = tlc.model_check(ctx.sub("mcv"), "Accept", cfg(6, 3, False, props=False) + "INVARIANT %s\n" % nv, timeout=900, expect_violation=True, tag="v" + nv)
        if not r1["violated"]:
            raise tlc.MachineryError("Accept: %s should be refuted (vacuity self-check)" % nv)
    alpha = alphabet(ctx, maxconn)
    d = tlc.dump_edges(ctx.sub("dump"), "Accept", cfg(4 if q else 5, maxconn, True, props=False), marker="STATE", timeout=2400)
    paths = d["edges"]
    specs = []
    for si, p in enumerate(paths):
        nacc = sum(1 for e in p if e["t"] == "accept")
        for ei, e in enumerate(alpha):
            if e["t"] in ("frame", "drop") and e["c"] > nacc + 0:
                continue
            if e["t"] == "accept" and nacc >= maxconn:
                continue
            if e["t"] != "start" and not any(x["t"] == "start" for x in p):
                continue
            specs.append({"id": "g%d.%d" % (si, ei), "evs": list(p) + [e]})
    ng = len(specs)
    rng = random.Random(ctx.seed * 577 + 2)
    for i in range(800 if q else 12000):
        specs.append(random_walk(rng, alpha, "w%d" % i, rng.randint(6, 40), 4 if i % 2 else maxconn))
    ctx.log("executing %d behaviours on a real AsyncFIXDummyServer (%d model states x %d events, %d random walks)" % (len(specs), len(paths), len(alpha), len(specs) - ng))
    recs = pmap(run_trace, specs)
    evaluate(ctx, out, specs, recs)
    out.samples = [{"id": r["id"], "events": [s["ev"]["t"] for s in r["steps"]][:40]} for r in recs[ng // 2:ng // 2 + 1] + recs[-1:]]
    out.exhaustive = True
    out.extra.update({"model_states_replayed": len(paths), "alphabet": len(alpha), "graph_traces": ng, "random_walks": len(specs) - ng})
    out.assumptions += ["asyncio.start_server is replaced; incoming connections are delivered by calling _handle_accept with a StreamReader and a writer whose close() feeds EOF to the paired reader, as a real transport does",
                        "after every accept one second of virtual time passes (the reader task polls for a socket once per second)",
                        "a second connect() while no connection is attached (a second listener on the same port) is not generated"]
    return out


def replay(ctx, inp):
    out = Outcome()
    rec = run_trace(inp)
    evaluate(ctx, out, [inp], [rec])
    out.states = out.transitions = 1
    out.samples = [{"id": rec["id"], "steps": rec["steps"][:30]}]
    return out
