"""C09 - see spec/Net.tla, spec/NetEval.tla, harness/netcheck.py; kill points inside a handler:
spec/KillEval.tla, harness/killrun.py."""
import json
import os
import random
import shutil

from ..core import Outcome
from .. import netcheck, sessrun, killrun, tlc
from ..par import pmap


def _count(sp):
    r = killrun.run(dict(sp, kill_at=0))
    # reference: stop right before the event.  A send that RAISED earlier in the history (unencodable text, duplicate
    # number) has drawn a number in memory that was never journaled or sent: the live counter is ahead of the stored one
    # by that many "burnt" numbers, which a restart legitimately forgets.  All clauses compare restored + burnt.
    ref = killrun.run(dict(sp, kill_at=-1, jfile=sp["jfile"][:-3] + "_ref.db", cont=[]))
    burnt = {"nin": r["pre"]["nin"] - ref["restored"]["nin"], "nout": r["pre"]["nout"] - ref["restored"]["nout"]}
    r["burnt"] = burnt
    return len(r["bounds"]), r


def kill_specs(ctx, jdir):
    alpha = sessrun.alphabet(ctx)
    frames = [e for e in alpha if e["t"] == "frame"]
    sends = [e for e in alpha if e["t"] == "send"]
    logon_in = next(e for e in frames if e["f"]["kind"] == "LOGON" and e["f"]["rel"] == 0 and e["f"]["hdr"] == "ok")
    logon_out = next(e for e in sends if e["m"]["kind"] == "LOGON")
    app = next(e for e in sends if e["m"]["kind"] == "APP" and e["m"]["pay"] not in ("11=BADENC", "11=b"))
    rng = random.Random(ctx.seed * 13 + 9)
    npre = 10 if ctx.quick else 80
    pres = [[{"t": "attach"}], [{"t": "attach"}, logon_in], [{"t": "attach"}, logon_out, logon_in]]
    for _ in range(npre):
        p = [{"t": "attach"}] + rng.choice([[logon_in], [logon_out, logon_in]])
        for _ in range(rng.randint(1, 8)):
            p.append(rng.choice(frames) if rng.random() < 0.6 else rng.choice(sends))
        pres.append(p)
    # outbound histories with a message that spells out PossDupFlag=N / carries its own OrigSendingTime (a ResendRequest
    # as the event under test replays them)
    from .c06 import RS as _RS
    for extra in ([_RS("APP", "11=n1", pdn=True), app], [app, _RS("APP", "11=n2", pdn=True)], [_RS("APP", "11=o1|97=Y", ost0=True), app]):
        pres.append([{"t": "attach"}, logon_in] + extra)
        pres.append([{"t": "attach"}, logon_out, logon_in] + extra)
    cont = [{"t": "attach"}, logon_in, app, app]
    cont2 = [{"t": "attach"}, logon_out, logon_in, app]
    base = []
    n = 0
    for p in pres:
        for tg in frames + sends:
            n += 1
            base.append({"id": "k%d" % n, "revs": p, "target": tg, "cont": cont if n % 2 else cont2,
                         "jfile": os.path.join(jdir, "k%d.db" % n)})
    return base


def run_kill(ctx, out):
    jdir = netcheck.scratch(ctx, "c09k")
    try:
        base = kill_specs(ctx, jdir)
        counts = pmap(_count, base)
        specs = [dict(sp, kill_at=0) for sp in base]          # the counting runs (not killed), in the order of `base`
        recs = [r0 for (_, r0) in counts]
        kills = []
        for sp, (b, r0) in zip(base, counts):
            for k in range(1, b + 1):
                kills.append(dict(sp, id="%s@%d" % (sp["id"], k), kill_at=k, jfile=sp["jfile"][:-3] + "_%d.db" % k, burnt=r0["burnt"]))
        if 2 * len(kills) < len(base):      # many prefixes end disconnected (no boundary at all): half a boundary per pair is the floor
            raise tlc.MachineryError("vacuity: only %d boundaries for %d (prefix, event) pairs" % (len(kills), len(base)))
        ctx.log("kill points: %d (prefix, event) pairs, %d boundaries; executing one killed-and-restarted run per boundary" % (len(base), len(kills)))
        more = pmap(killrun.run, kills)
        for sp2, r2 in zip(kills, more):
            r2["burnt"] = sp2["burnt"]
        specs += kills
        recs += more
    finally:
        shutil.rmtree(jdir, ignore_errors=True)
    eval_kill(ctx, out, recs, specs)
    labels = {}
    for r in recs:
        if r["kill_at"] and r.get("labels"):
            labels[r["labels"][-1]] = labels.get(r["labels"][-1], 0) + 1
    out.extra["kill_points"] = {"pairs": len(base), "killed_runs": len(specs) - len(base), "by_boundary": labels}


def eval_kill(ctx, out, recs, specs):
    slim = [{k: r[k] for k in ("id", "pre", "post", "bounds", "completed", "raised", "restored", "live2", "restored2", "wire", "cont_error", "burnt")} for r in recs]
    verd = tlc.evaluate(ctx.sub("evalk"), "KillEval", slim, shard_size=max(20, len(slim) // 16 + 1), jobs=16, timeout=1200)
    for r, v, sp in zip(recs, verd, specs):
        out.traces += 1
        inp = {"kill": {k: sp[k] for k in ("id", "revs", "target", "cont", "kill_at")}}
        r.setdefault("burnt", {"nin": 0, "nout": 0})
        if r.get("harness_error"):
            out.failures.append({"clause": "HARNESS", "triggers": [], "input": inp, "detail": r["harness_error"], "trace": None})
            continue
        if not v["fails"]:
            out.traces_ok += 1
        out.hit({"kill:" + c: 1 for c in ("T1c_restored_counters", "T2_no_number_reuse")})
        for c in v["fails"]:
            out.failures.append({"clause": c, "triggers": [], "input": inp,
                                 "detail": {"target": r["target"], "killed_at": (r.get("labels") or ["-"])[-1] if r["kill_at"] else "not killed",
                                            "pre": r["pre"], "bounds": r["bounds"], "restored": r["restored"],
                                            "wire": [(w["seq"], w["inc"], w["kind"]) for w in r["wire"]], "cont_error": r["cont_error"]},
                                 "trace": None})


def run(ctx):
    out = Outcome()
    netcheck.run(ctx, out, "C09")
    run_kill(ctx, out)
    out.assumptions.append("kill points: a kill takes effect at a journal-commit, transport-write or drain boundary (SQLite's own atomic-commit is trusted, C08 "
                           "covers statement-level crash points of the journal); uncommitted journal work is lost, bytes handed to the transport before the kill may or may not have reached the peer")
    return out


def replay(ctx, inp):
    out = Outcome()
    if "kill" in inp:
        jdir = netcheck.scratch(ctx, "c09k")
        try:
            sp = dict(inp["kill"], jfile=os.path.join(jdir, "r.db"))
            rec = killrun.run(sp)
            rec["burnt"] = _count(sp)[1]["burnt"]
        finally:
            shutil.rmtree(jdir, ignore_errors=True)
        eval_kill(ctx, out, [rec], [sp])
        out.states = out.transitions = 1
        out.samples = [{"id": rec["id"], "bounds": rec["bounds"], "restored": rec["restored"]}]
        return out
    netcheck.replay(ctx, out, "C09", inp)
    return out
