"""C09 - see spec/Net.tla, spec/NetEval.tla, harness/netcheck.py."""
from ..core import Outcome
from .. import netcheck


def run(ctx):
    out = Outcome()
    netcheck.run(ctx, out, "C09")
    return out


def replay(ctx, inp):
    out = Outcome()
    netcheck.replay(ctx, out, "C09", inp)
    return out
