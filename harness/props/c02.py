"""C02 - every frame put on the wire is a well-formed FIX frame.

Spec: spec/Wire.tla WellFormedFrame / FrameDefects (independent byte-level grammar),
evaluated by TLC (spec/WireEval.tla) on (i) the bytes handed to the transport by
send_msg for messages with adversarial values (framing look-alikes, every latin-1
character, multi-byte and astral characters) and (ii) EVERY frame written during seeded
session histories of one endpoint (logon, heartbeats, TestRequests, ResendRequests,
replays, gap fills, logouts) and of two endpoints over a lossy link."""
import random

from ..core import Outcome
from ..par import pmap
from .. import wirecheck as W
from .. import tlc, sessrun, session, netrun, netcheck
from ..net import Endpoint, VLoop, install_clock, FIXMessage, FMsg, FTag, ConnectionState

POOL = ["a", "=", "a=b", "10=000", "9=12", "8=FIX.", "x8=FIX.4.4y", "35=A", "8=FIX.4.4\x029=5", " ", "a b", "|", "^", "~",
        "é", "ÿ", "Ж", "€", "\U0001F600", "aéb", " ", "x" * 300, "0", "-1", "1e3"]
POOL += [chr(c) for c in range(0x20, 0x7f)] + [chr(c) for c in range(0xa0, 0x100, 7)]
# text above U+00FF that a Unicode normalisation, case mapping or transliteration would turn into single-byte text: it cannot be
# represented (must be refused, nothing written); what is counted in BodyLength / CheckSum must be what is written
POOL += ["cafe\u0301", "A\u030a", "\u212a", "\u212b", "\ufb01", "\uff21", "\u2160", "\u1e9e", "\u0131", "\u017f", "\u2126x", "o\u0308\u00e9"]


def _send_case(a):
    rid, tags = a[0], a[1]
    mt = a[2] if len(a) > 2 else FMsg.NEWORDERSINGLE
    loop = VLoop()
    install_clock(loop)
    ep = Endpoint(loop, "A", "B")
    try:
        ep.attach(state=ConnectionState.ACTIVE)
        ep.conn._message_last_time = loop.time()
        loop.run_idle()
        n0 = len(ep.sent)
        m = FIXMessage(mt)
        for t, v in tags:
            if isinstance(v, list):
                m.set_group(t, [dict(x) for x in v])
            else:
                m.set(t, v)
        r = ep.send(m)
        wrote = ep.sent[n0:]
    finally:
        loop.shutdown()
    return {"id": rid, "kind": "send", "bytes": list(wrote[0]) if wrote else [], "exc": "none" if r == "ok" else r,
            "nframes": len(wrote), "tags": repr(tags)[:200]}


def _sess(spec):
    rec = session.run_trace(dict(spec, keep_raw=True))
    return [r for r in rec.get("raw", [])]


def _net(spec):
    rec = netrun.run_trace(dict(spec, keep_raw=True))
    return [r for r in rec.get("raw", [])]


def run(ctx):
    out = Outcome()
    q = ctx.quick
    rng = random.Random(ctx.seed * 23 + 2)
    cases = []
    for i, v in enumerate(POOL):
        cases.append(("v%d" % i, [(58, v)]))
        cases.append(("c%d" % i, [(11, "id"), (58, v), (1, "acc")]))
    for i in range(200 if q else 3000):
        n = rng.randint(1, 4)
        tags = [(rng.choice([1, 11, 55, 58, 15, 18, 21, 100, 5001]), "".join(rng.choice(POOL) for _ in range(rng.randint(1, 3)))) for _ in range(n)]
        tags = list(dict(tags).items())
        if rng.random() < 0.3:
            tags.append((78, [{79: rng.choice(POOL), 80: "5"}, {79: "b", 80: rng.choice(POOL)}]))
        cases.append(("r%d" % i, tags))
    # every message type of the dictionary enum (one- and two-character types) and custom types; application kinds only
    # (session kinds are written in the session histories below)
    session_kinds = {FMsg.LOGON, FMsg.LOGOUT, FMsg.HEARTBEAT, FMsg.TESTREQUEST, FMsg.RESENDREQUEST, FMsg.SEQUENCERESET}
    for i, mt in enumerate([x for x in FMsg if x not in session_kinds] + ["U1", "ZZZ", "u", "U12345"]):
        cases.append(("mt%d" % i, [(58, "t")], mt))
        if i % 5 == 0:
            cases.append(("mtg%d" % i, [(11, "id"), (78, [{79: "a", 80: "5"}])], mt))
    # session-level kinds built by the application or by disconnect(logout_message=...) with adversarial text:
    # every pool value as Logout Text and TestReqID-free Heartbeat Text; what cannot be represented must be refused
    for i, v in enumerate(POOL):
        cases.append(("lo%d" % i, [(58, v)], FMsg.LOGOUT))
        if i % 4 == 0:
            cases.append(("hb%d" % i, [(58, v)], FMsg.HEARTBEAT))
            cases.append(("rj%d" % i, [(45, "2"), (58, v)], FMsg.REJECT))
    # body lengths crossing the 2->3 and 3->4 digit boundaries of BodyLength
    for L in list(range(20, 60)) + list(range(915, 960)):
        cases.append(("len%d" % L, [(58, "x" * L)]))
    recs = pmap(_send_case, cases)
    # every frame written during session histories
    alpha = sessrun.alphabet(ctx)
    sspecs = [sessrun.random_walk(rng, alpha, "w%d" % i, rng.randint(5, 40)) for i in range(250 if q else 4000)]
    nspecs = [{"id": "n%d" % i, "evs": netcheck.random_walk(rng, rng.randint(10, 80), False)} for i in range(60 if q else 1500)]
    # retransmissions of messages with non-ASCII text: a journaled latin-1 message replayed on a ResendRequest
    from .c06 import RF, RS
    for i, v in enumerate(["Z\xfcrich desk", "\xe9", "\xff\xa0x", "caf\xe9 8=FIX.4.4", "a\xb2"]):
        sspecs.append({"id": "l1r%d" % i, "declined": [],
                       "revs": [{"t": "attach"}, RF("LOGON", 0), RS("APP", "11=q%d|58=%s" % (i, v)), RS("APP", "11=r%d" % i),
                                RF("RR", 0, bm="abs", bv=1, em="abs", ev=0), RS("APP", "11=s%d|58=%s" % (i, v))]})
    raws = pmap(_sess, sspecs) + pmap(_net, nspecs)
    seen = set()
    k = 0
    for lst in raws:
        for r in lst:
            if r in seen:
                continue
            seen.add(r)
            recs.append({"id": "f%d" % k, "kind": "frame", "bytes": list(r.encode("latin-1"))})
            k += 1
    ctx.log("%d send cases with adversarial values, %d distinct frames written during %d session histories" % (len(cases), k, len(sspecs) + len(nspecs)))
    verd = W.evaluate(ctx, recs)
    for rec, v in zip(recs, verd):
        out.traces += 1
        if not v["fails"]:
            out.traces_ok += 1
        kinds = "refused" if (rec["kind"] == "send" and not rec["bytes"]) else "frames_checked"
        out.clause_hits[kinds] = out.clause_hits.get(kinds, 0) + 1
        seenc = set()
        for c in v["fails"]:
            if c in seenc:
                continue
            seenc.add(c)
            out.failures.append({"clause": c, "triggers": [], "input": {"id": rec["id"], "bytes": bytes(rec["bytes"]).decode("latin-1")},
                                 "detail": {"bytes": repr(bytes(rec["bytes"]))[:400], "exc": rec.get("exc"), "tags": rec.get("tags")}, "trace": None})
    out.states = out.transitions = 1
    out.samples = [{"id": r["id"], "bytes": repr(bytes(r["bytes"]))[:160]} for r in recs[:1] + recs[-1:]]
    out.extra.update({"send_cases": len(cases), "session_frames": k,
                      "tlc_role": "TLC evaluates the byte-level grammar Wire.tla on every frame; no state space (states/transitions reported as 1)"})
    out.assumptions = ["BeginString FIX.4.4", "a message that cannot be represented is one with characters above U+00FF: it must be refused with an exception and nothing written"]
    return out


def replay(ctx, inp):
    out = Outcome()
    rec = {"id": inp["id"], "kind": "frame", "bytes": list(inp["bytes"].encode("latin-1"))}
    verd = W.evaluate(ctx, [rec])
    out.traces = 1
    for c in verd[0]["fails"]:
        out.failures.append({"clause": c, "triggers": [], "input": inp, "detail": repr(inp["bytes"])[:300], "trace": None})
    if not verd[0]["fails"]:
        out.traces_ok = 1
    out.states = out.transitions = 1
    out.samples = [inp["id"]]
    return out
