"""C10 - the decoder is total, makes progress and never accepts a corrupted frame.

Spec: spec/Wire.tla (independent byte-level grammar), evaluator spec/WireEval.tla.
Inputs: arbitrary byte strings, grammar-aware malformed frames, every single-byte
substitution / deletion / insertion of a corpus of valid frames, each followed by valid
traffic; Codec.decode(silent=True) is called repeatedly and the live reader is fed the same
bytes in several chunkings."""
import random

from ..core import Outcome
from ..par import pmap
from .. import wirecheck as W
from .. import tlc


def grammar_mutants(f):
    s = f.decode("latin-1")
    toks = s.split("\x01")
    out = []

    def rebuild(tk):
        return "\x01".join(tk).encode("latin-1")
    bl = toks[1]
    for v in ("abc", "-5", "", "1", "99999", "0", "8 2", "+%s" % bl[2:], "1e1", "٣".encode("utf-8").decode("latin-1")):
        out.append(("bodylen=" + v, rebuild([toks[0], "9=" + v] + toks[2:])))
    ck = toks[-2]
    for v in ("xyz", "", "12", "1234", " 12", "+12", "1_2", "-01"):
        out.append(("cksum=" + v, rebuild(toks[:-2] + ["10=" + v, ""])))
    # the right CheckSum value in the wrong lexical form (unpadded, over-padded)
    true = int(ck[3:])
    for v in (str(true), "0" + ck[3:], "%02d" % true, " %d" % true, "%d " % true):
        if v != ck[3:]:
            out.append(("cksum_form=" + v, rebuild(toks[:-2] + ["10=" + v, ""])))
    # numerals far beyond any machine word (Python refuses int() of more than 4300 digits)
    for nd in (10, 20, 310, 4300, 4301, 6000):
        out.append(("bodylen_digits%d" % nd, rebuild([toks[0], "9=" + "1" * nd] + toks[2:])))
        out.append(("tag_digits%d" % nd, rebuild(toks[:3] + ["5" * nd + "=1"] + toks[3:])))
        out.append(("cksum_digits%d" % nd, rebuild(toks[:-2] + ["10=" + "0" * (nd - 3) + ck[3:], ""])))
        out.append(("seq_digits%d" % nd, rebuild([("34=" + "7" * nd) if t.startswith("34=") else t for t in toks])))
    out.append(("tag=ab", rebuild(toks[:3] + ["ab=1"] + toks[3:])))
    for bad in ("\xb25", "5\xb2", "\xb9", "\xb3\xb2", "\u0665".encode("utf-8").decode("latin-1")):
        out.append(("tag=nonascii_digit", rebuild(toks[:3] + [bad + "=1"] + toks[3:])))
        out.append(("bodylen=nonascii_digit", rebuild([toks[0], "9=" + bad] + toks[2:])))
        out.append(("cksum=nonascii_digit", rebuild(toks[:-2] + ["10=" + (bad + "00")[:3], ""])))
    out.append(("tag=1.0", rebuild(toks[:3] + ["1.0=1"] + toks[3:])))
    out.append(("noeq", rebuild(toks[:3] + ["58"] + toks[3:])))
    out.append(("emptyfield", rebuild(toks[:3] + [""] + toks[3:])))
    out.append(("emptyvalue", rebuild(toks[:3] + ["58="] + toks[3:])))
    out.append(("order", rebuild([toks[0], toks[2], toks[1]] + toks[3:])))
    out.append(("beginstring", rebuild(["8=FIX.4.2"] + toks[1:])))
    out.append(("no9", rebuild([toks[0]] + toks[2:])))
    for k in sorted(set(list(range(1, 14)) + [len(f) // 2, len(f) - 8, len(f) - 2, len(f) - 1])):    # every cut inside BeginString too
        out.append(("trunc%d" % k, f[:k]))
    return out


def byte_mutants(f, full):
    # 0xB2 0xB3 0xB9: latin-1 superscript digits (str.isdigit() is True for them, int() refuses them)
    repl = list(range(256)) if full else [0, 1, 0x20, 0x2b, 0x30, 0x31, 0x39, 0x3d, 0x38, 0x5f, 0x7c, 0xff, 0xb2, 0xb9]
    for i in range(len(f)):
        yield ("del%d" % i, f[:i] + f[i + 1:])
        for r in repl:
            if r != f[i]:
                yield ("sub%d_%d" % (i, r), f[:i] + bytes([r]) + f[i + 1:])
        for r in (repl if full else [0, 1, 0x20, 0x30, 0x3d, 0x38]):
            yield ("ins%d_%d" % (i, r), f[:i] + bytes([r]) + f[i:])


def _dec(a):
    return W.decode_record(*a)


def _live(a):
    return W.live_record(*a)


def run(ctx):
    out = Outcome()
    q = ctx.quick
    rng = random.Random(ctx.seed * 17 + 10)
    corpus = W.corpus()
    tail = W.peer_frames(2, start=3)        # valid traffic that follows the malformed input (numbers 3, 4)
    follow = b"".join(tail)
    dec_in, live_in = [], []
    n = 0
    # (1) arbitrary bytes
    for i in range(300 if q else 5000):
        L = rng.randint(0, 60)
        alphabet = rng.choice([bytes(range(256)), b"8=FIX.4\x019=10=35\x01", b"8=FIX.4.4\x019=5\x0135=0\x0110=1234567890\x01"])
        b = bytes(rng.choice(alphabet) for _ in range(L))
        dec_in.append(("rnd%d" % i, b + (follow if rng.random() < 0.5 else b""), None, None, ()))
    # (2) grammar-aware malformed frames + (3) single-byte corruptions, each followed by valid traffic
    peer2 = W.peer_frames(1, start=2)[0]    # the frame that gets corrupted carries number 2
    # frames whose CheckSum needs zero padding (one and two leading zeros): found by varying the payload
    from ..net import PeerCodec
    pc = PeerCodec("B", "A")
    small = {}
    for k in range(4000):
        f = pc.frame("APP", 2, pay="x%d" % k)
        c = int(f[-4:-1])
        cls = 1 if c < 10 else (2 if c < 100 else 0)
        if cls and cls not in small:
            small[cls] = f
        if len(small) == 2:
            break
    # quick: Logon, Heartbeat and the frame with a repeating group (corruptions inside a group take the decoder's
    # group-context paths); thorough: the whole corpus
    targets = [peer2] + [small[k] for k in sorted(small)] + (corpus if not q else corpus[:2] + [corpus[4]])
    for ti, f in enumerate(targets):
        muts = grammar_mutants(f) + list(byte_mutants(f, full=(not q and ti == 0)))
        if q and len(muts) > 2500:
            muts = grammar_mutants(f) + rng.sample(muts[len(grammar_mutants(f)):], 2300)
        for name, m in muts:
            rid = "t%d.%s" % (ti, name)
            dec_in.append((rid, m + follow, f, None, tuple(tail)))
            if ti == 0 and (not q or rng.random() < 0.25):
                data = m + follow
                chunkings = [[data], [data[:len(m)], data[len(m):]], [bytes([x]) for x in data]] if rng.random() < 0.15 else [[data]]
                for ci, ch in enumerate(chunkings):
                    # if the corrupted frame itself is still delivered or kills the session, what follows differs: judged below
                    live_in.append((rid + ".c%d" % ci, ch, [3, 4]))
    # marker-free junk in front of the frame in the same buffer (the frame's marker is not at offset 0), the frame cut
    # at every field boundary / a few bytes short / complete, with and without traffic behind it
    for ji, junk in enumerate([b"\x00junk\x01", b"x" * 23, b"10=000\x01" * 3, b"\r\n"]):
        f = peer2
        cuts = [i + 1 for i, ch in enumerate(f) if ch == 1] + [len(f) - 1, len(f) - 3, len(f) - 8]
        for k in sorted(set(cuts)):
            dec_in.append(("jp%d.cut%d" % (ji, k), junk + f[:k], None, None, ()))
            if k == len(f):
                dec_in.append(("jp%d.whole+follow" % ji, junk + f + follow, f, None, tuple([f] + list(tail))))
        for name, m in grammar_mutants(f)[:40]:
            dec_in.append(("jp%d.%s" % (ji, name), junk + m + follow, None, None, tuple(tail)))
    ctx.log("decoding %d buffers repeatedly with the real Codec.decode(silent=True); %d live-reader runs" % (len(dec_in), len(live_in)))
    drecs = pmap(_dec, dec_in)
    lrecs = pmap(_live, live_in)
    # live expectation: after a corrupted frame numbered 2 is dropped, 3 triggers a ResendRequest (gap) and is not
    # delivered - so what we check on the live reader is progress: the buffer is drained and the reader is still alive.
    for r in lrecs:
        r["expect"] = r["deliv"]       # deliveries are judged by C03/C04; here: buffer drained (P5) and no livelock
    verd = W.evaluate(ctx, drecs + lrecs)
    nd = len(drecs)
    for i, (rec, v) in enumerate(zip(drecs + lrecs, verd)):
        out.traces += 1
        if rec.get("harness_error"):
            out.failures.append({"clause": "HARNESS", "triggers": [], "input": {"id": rec["id"]}, "detail": rec["harness_error"], "trace": None})
            continue
        if not v["fails"]:
            out.traces_ok += 1
        if rec["kind"] == "decode":
            out.clause_hits["decode_calls"] = out.clause_hits.get("decode_calls", 0) + len(rec["calls"])
            out.clause_hits["messages_returned"] = out.clause_hits.get("messages_returned", 0) + sum(1 for c in rec["calls"] if c["msg"])
        seen = set()
        for c in v["fails"]:
            if c in seen:
                continue
            seen.add(c)
            inp = {"id": rec["id"], "buf": bytes(rec["buf"]).decode("latin-1")} if rec["kind"] == "decode" else {"id": rec["id"]}
            det = {"id": rec["id"]}
            if rec["kind"] == "decode":
                bad = [c2 for c2 in rec["calls"] if c2["exc"] != "none" or c2["msg"]]
                det.update({"buf": repr(bytes(rec["buf"])), "calls": [{"exc": c2["exc"], "msg": c2["msg"], "consumed": c2["consumed"], "raw": repr(bytes(c2["raw"]))} for c2 in (bad[:2] or rec["calls"][:2])]})
            else:
                det.update({"deliv": rec["deliv"], "buflen": rec["buflen"], "cs": rec["cs"]})
            out.failures.append({"clause": c, "triggers": v["trigs"], "input": inp, "detail": det, "trace": None})
    out.states = 1
    out.transitions = 1
    out.samples = [{"id": r["id"], "buf": repr(bytes(r["buf"]))[:200], "calls": len(r["calls"])} for r in drecs[:1] + drecs[-1:]]
    out.extra.update({"buffers_decoded": nd, "live_reader_runs": len(lrecs), "corpus_frames": len(targets),
                      "tlc_role": "TLC evaluates the byte-level grammar Wire.tla on every returned frame; there is no state space to explore for this property (states/transitions are reported as 1)"})
    out.assumptions = ["BeginString FIX.4.4", "single-byte corruptions are sampled over 12 replacement bytes per position in the quick tier, all 255 in the thorough tier"]
    return out


def replay(ctx, inp):
    out = Outcome()
    rec = W.decode_record(inp["id"], inp["buf"].encode("latin-1"))
    verd = W.evaluate(ctx, [rec])
    out.traces = 1
    for c in verd[0]["fails"]:
        out.failures.append({"clause": c, "triggers": verd[0]["trigs"], "input": inp, "detail": rec["calls"][:2], "trace": None})
    if not verd[0]["fails"]:
        out.traces_ok = 1
    out.states = out.transitions = 1
    out.samples = [inp["id"]]
    return out
