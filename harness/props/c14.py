"""C14 - concurrent senders never corrupt the outbound sequence.

Spec: spec/SendConc.tla (tasks x suspension points, FIFO drain wake-up), checked
exhaustively by TLC (deadlock-free, S1-S6).  Binding: harness/conc.py enumerates ALL
schedules of the real code over its real suspension points (gated drain, should_replay,
on_state_change, on_message, on_logon) by stateless DFS; TLC (spec/SendConcEval.tla)
evaluates S1-S6 on the wire / journal / results of every execution; the set of wires is
compared with the set TLC found reachable in the model (drift only)."""
import json

from .. import tlc, conc, sessrun
from ..core import Outcome
from ..par import pmap


def mc_cfg(apps, hb, rr, dump):
    return ("SPECIFICATION Spec\nCONSTANTS\n KF_BackwardReset = TRUE\n KF_StoredInLag = FALSE\n KF_WriteBeforeJournal = FALSE\n"
            " Apps = {%s}\n WithHB = %s\n WithRR = %s\n Dump = %s\nVIEW View\nINVARIANT Inv_S1\nINVARIANT Inv_S2\nINVARIANT Inv_S6\nINVARIANT Inv_End\n%s"
            % (",".join('"%s"' % a for a in apps), "TRUE" if hb else "FALSE", "TRUE" if rr else "FALSE",
               "TRUE" if dump else "FALSE", "INVARIANT Inv_DumpEnd\n" if dump else ""))


def _explore(args):
    cfg, cap = args
    return conc.explore(cfg, cap)


def run(ctx):
    out = Outcome()
    q = ctx.quick
    cap = 6000 if q else 200000
    cfgs = [{"apps": ["a1", "a2"], "hb": True, "frame": "RR"},
            {"apps": ["a1", "a2"], "hb": False, "frame": "RR", "declined": ["11=b"]},
            {"apps": ["a1"], "hb": True, "frame": "TR"},
            {"apps": ["a1", "a2"], "hb": False, "frame": "GAP"},
            {"apps": ["a1"], "hb": True, "frame": "APP"},
            # the first messages of a connection (NETWORK_CONN_ESTABLISHED): Logon, Logout and an application send racing
            {"init": "nce", "apps": ["a1"], "hb": False, "frame": "", "logon": True, "logout": True},
            {"init": "nce", "apps": [], "hb": False, "frame": "LOGON", "logon": True, "logout": True},
            # a sender racing the reader while it finalizes the gap fill that ends RESENDREQ_AWAITING
            {"init": "awaiting", "apps": ["a1", "a2"], "hb": False, "frame": "GAPCLOSE"}]
    if not q:
        cfgs.append({"apps": ["a1", "a2", "a3"], "hb": True, "frame": "RR"})
        cfgs.append({"apps": ["a1", "a2", "a3"], "hb": False, "frame": "GAP"})
    # design: the model for the task sets that contain the resend servicing
    model_wires = {}
    for c in cfgs:
        if c["frame"] != "RR" or c.get("declined"):
            continue
        r = tlc.model_check(ctx.sub("mc"), "SendConc", mc_cfg(c["apps"], c["hb"], True, False), timeout=2400, heap="10g",
                            tag="sc%d" % len(c["apps"]))
        out.add_tlc(r)
        d = tlc.dump_edges(ctx.sub("dump"), "SendConc", mc_cfg(c["apps"], c["hb"], True, True), marker="END", timeout=2400)
        ws = set()
        for e in d["edges"]:
            ws.add(json.dumps([[w["kind"], w["seq"], w["pd"], w["pay"], w["newseq"]] for w in e["wire"]]))
        model_wires[json.dumps(c, sort_keys=True)] = ws
        ctx.log("SendConc model apps=%s hb=%s +resend: %d states, no deadlock, S1-S6 hold, %d distinct terminal wires"
                % (c["apps"], c["hb"], r["distinct"], len(ws)))
    res = pmap(_explore, [(c, cap) for c in cfgs], procs=len(cfgs), force=True)
    recs = []
    for c, (rs, complete) in zip(cfgs, res):
        ctx.log("real code, tasks %s: %d schedules explored%s, longest %d choice points"
                % (c, len(rs), "" if complete else " (capped)", max(len(r["choices"]) for r in rs)))
        out.extra.setdefault("schedules", []).append({"cfg": c, "executions": len(rs), "exhaustive": complete})
        out.exhaustive = out.exhaustive or complete
        recs.extend(rs)
    for i, r in enumerate(recs):
        r["id"] = "x%d" % i
    verd = tlc.evaluate(ctx.sub("eval"), "SendConcEval", recs, shard_size=max(50, len(recs) // 16 + 1), jobs=16,
                        timeout=2400)
    wires_real = {}
    for rec, v in zip(recs, verd):
        out.traces += 1
        if rec.get("harness_error"):
            out.failures.append({"clause": "HARNESS", "triggers": [], "input": {"cfg": rec["cfg"], "prefix": rec["choices"]},
                                 "detail": {"harness_error": rec["harness_error"]}, "trace": None})
            continue
        out.clause_hits["new_frames"] = out.clause_hits.get("new_frames", 0) + v["nnew"]
        key = json.dumps(rec["cfg"], sort_keys=True)
        mw = model_wires.get(key)
        drift = False
        if mw is not None:
            aw = json.dumps([[w["kind"], w["seq"], w["pd"], w["pay"], w["newseq"]] for w in json.loads(v["wire"])])
            wires_real.setdefault(key, set()).add(aw)
            if aw not in mw:
                drift = True
                out.drift += 1
                if len(out.drift_samples) < 5:
                    out.drift_samples.append({"cfg": rec["cfg"], "wire_not_in_model": json.loads(aw)})
        if not v["fails"] and not drift:
            out.traces_ok += 1
        for c in v["fails"]:
            out.failures.append({"clause": c, "triggers": [], "input": {"cfg": rec["cfg"], "prefix": rec["choices"]},
                                 "detail": {"wire": [(w["kind"], w["seq"], w["pd"], w["pay"]) for w in rec["wire"]], "results": rec["results"],
                                            "sout": rec["sout"], "nout": rec["nout"], "cs": rec["cs"], "schedule": rec["choices"]},
                                 "trace": None})
    for key, mw in model_wires.items():
        rw = wires_real.get(key, set())
        out.extra.setdefault("wire_sets", []).append({"cfg": json.loads(key), "model": len(mw), "real": len(rw), "model_not_seen_in_real": len(mw - rw)})
    out.samples = [{"cfg": r["cfg"], "schedule": r["choices"], "wire": [(w["kind"], w["seq"], w["pd"]) for w in r["wire"]]} for r in recs[:2]]
    out.assumptions = ["single event loop: preemption only at awaits (as the property states)",
                       "drain waiters are woken in FIFO order", "the schedules of the real code are enumerated by re-execution (stateless DFS)"]
    return out


def replay(ctx, inp):
    out = Outcome()
    rec = conc.run_schedule(inp["cfg"], inp["prefix"])
    rec["id"] = "replay"
    verd = tlc.evaluate(ctx.sub("eval"), "SendConcEval", [rec])
    out.traces = 1
    for c in verd[0]["fails"]:
        out.failures.append({"clause": c, "triggers": [], "input": inp, "detail": {"wire": rec["wire"], "results": rec["results"]}, "trace": None})
    if not verd[0]["fails"]:
        out.traces_ok = 1
    out.states = out.transitions = 1
    out.samples = [rec["choices"]]
    return out
