"""C12 - the heartbeat watchdog detects dead peers and spares live ones.

Spec: spec/Heartbeat.tla (discrete virtual time, unit 1/4 s, the timer task wakes once per
second at a given phase), clauses in spec/HeartbeatProps.tla, evaluator
spec/HeartbeatEval.tla.  Binding: every behaviour of the bounded model (arrival pattern x
phase x heartbeat interval) is replayed against the real heartbeat_timer_task and reader
under the virtual clock; longer intervals and random arrival patterns on the real code."""
import random

from .. import tlc, session, sessrun
from ..core import Outcome
from ..par import pmap

CL = ["W1a", "W1b", "W1c", "W2", "W3", "W4", "W5"]


def cfg(H, phase, maxarr, dump, props=True):
    s = ("SPECIFICATION Spec\nCONSTANTS\n KF_BackwardReset = TRUE\n KF_StoredInLag = FALSE\n KF_WriteBeforeJournal = FALSE\n"
         " H = %d\n Phase = %d\n MaxArr = %d\n Horizon = %d\n Dump = %s\nVIEW View\n" % (H, phase, maxarr, (4 * H + 4) * 4, "TRUE" if dump else "FALSE"))
    if props:
        s += "".join("PROPERTY A_%s\n" % c for c in CL)
    if dump:
        s += "INVARIANT Inv_DumpState\n"
    return s + "CHECK_DEADLOCK FALSE\n"


def RF(kind, rel, trid=""):
    return {"t": "frame", "f": {"kind": kind, "rel": rel, "pd": False, "gf": False, "nm": "rel", "nv": 0, "bm": "abs", "bv": 0,
                                "em": "abs", "ev": 0, "trid": trid, "hdr": "ok"}}


APP_TR = {"t": "send", "m": {"kind": "TR", "seqm": "none", "seqv": 0, "pd": False, "gf": False, "trid": "9", "pay": ""}}
PRE = [{"t": "attach"}, RF("LOGON", 0)]
PEER = [RF("HB", 0), RF("HB", 0, "match"), RF("HB", 0, "wrong"), RF("HB", 0, "wronghi"), RF("HB", 0, "wrongtxt"), RF("TR", 0, "T1"), RF("HB", 1, "match"), RF("APP", 0),
        RF("TR", 1, "T2"), RF("APP", 1), RF("HB", -1, "match")]


def random_script(rng, H, n):
    """Arrival pattern in quarter seconds: silence, periodic below/at/above the interval, bursts, delayed answers."""
    revs = []
    mode = rng.choice(["silent", "periodic", "burst", "answer", "random"])
    period = rng.choice([max(1, 4 * H - 6), 4 * H - 4, 4 * H - 1, 4 * H, 4 * H + 3, 8 * H]) if mode == "periodic" else 0
    delay = rng.choice([0, 1, 4 * H, 8 * H - 9, 8 * H - 4, 8 * H, 8 * H + 5]) if mode == "answer" else 0
    t_since = 0
    pending = None
    for q in range(n):
        revs.append({"t": "adv"})
        t_since += 1
        if mode == "periodic" and t_since >= period:
            revs.append(RF("HB", 0)); t_since = 0
        elif mode == "burst" and q < 6 * H and rng.random() < 0.5:
            revs.append(rng.choice(PEER[:1] + [RF("APP", 0)]))
        elif mode == "answer":
            # answer (with the matching id) `delay` quarters after each quarter in which we might have been probed
            if pending is None and q % (4 * H) == 4 * H - 1:
                pending = q + delay
            if pending is not None and q >= pending:
                revs.append(RF("HB", 0, rng.choice(["match", "match", "match", "wrong", "wronghi", "wrongtxt", ""])))
                pending = None
        elif mode == "random" and rng.random() < 0.15:
            revs.append(rng.choice(PEER + [APP_TR]))
    return revs


def collect(ctx, out, recs, verd, specs):
    for rec, v, sp in zip(recs, verd, specs):
        out.traces += 1
        if rec.get("harness_error"):
            out.failures.append({"clause": "HARNESS", "triggers": [], "input": sp,
                                 "detail": {"harness_error": rec["harness_error"], "after_steps": len(rec["steps"])}, "trace": None})
            continue
        out.clause_hits["steps"] = out.clause_hits.get("steps", 0) + len(rec["steps"])
        out.clause_hits["test_requests_sent"] = out.clause_hits.get("test_requests_sent", 0) + v["ntr"]
        out.clause_hits["watchdog_disconnects"] = out.clause_hits.get("watchdog_disconnects", 0) + v["nwd"]
        if v["drift"]:
            out.drift += len(v["drift"])
            if len(out.drift_samples) < 5:
                out.drift_samples.append({"trace": rec["id"], "drift": v["drift"][:3], "ev": rec["steps"][v["drift"][0]["step"] - 1]["ev"]})
        if not v["fails"] and not v["drift"]:
            out.traces_ok += 1
        seen = set()
        for f in v["fails"]:
            if f["clause"] in seen:
                continue
            seen.add(f["clause"])
            st = rec["steps"][f["step"] - 1]
            out.failures.append({"clause": f["clause"], "triggers": [], "input": sp,
                                 "detail": {"step": f["step"], "ev": st["ev"], "pre": sessrun._short(st["pre"]), "out": st["out"],
                                            "post": sessrun._short(st["post"]), "H": rec["H"]},
                                 "trace": {"id": rec["id"], "steps": len(rec["steps"])}})


def run(ctx):
    out = Outcome()
    q = ctx.quick
    specs = []
    insts = [(1, 0, 3), (2, 2, 2)] if q else [(1, 0, 3), (1, 2, 3), (2, 0, 3), (2, 2, 3), (3, 0, 3), (3, 2, 2)]
    for (H, ph, ma) in insts:
        r = tlc.model_check(ctx.sub("mc"), "Heartbeat", cfg(H, ph, ma + (0 if q else 1), False), timeout=2400, heap="10g", tag="hb%d%d" % (H, ph))
        out.add_tlc(r)
        d = tlc.dump_edges(ctx.sub("dump"), "Heartbeat", cfg(H, ph, ma if not q else ma - 1, True, props=False), marker="STATE", timeout=2400)
        ctx.log("Heartbeat model H=%d phase=%d: %d states hold W1-W5; replaying %d behaviours" % (H, ph, r["distinct"], len(d["edges"])))
        # only maximal behaviours are needed? every distinct state's path is a prefix-closed set; replay all
        edges = d["edges"]
        cap = 8000
        if len(edges) > cap:      # thorough instances have up to 260 000 behaviours: replay a seeded sample (memory, time)
            rs = random.Random(ctx.seed * 101 + H * 7 + ph)
            edges = rs.sample(edges, cap)
        for i, p in enumerate(edges):
            specs.append({"id": "m%d.%d.%d" % (H, ph, i), "hb": H, "scale": 4, "phase": ph, "revs": PRE + list(p)})
            # the VIEW keeps one path per distinct state, so events with the same effect (the classes of wrong
            # TestReqIDs) are merged in the model: apply every peer frame of the alphabet at a sample of the states
            if i % (25 if q else 40) == 0:
                for k, e in enumerate(PEER):
                    specs.append({"id": "m%d.%d.%d+%d" % (H, ph, i, k), "hb": H, "scale": 4, "phase": ph, "revs": PRE + list(p) + [e, {"t": "adv"}]})
    nmodel = len(specs)
    rng = random.Random(ctx.seed * 13 + 12)
    nr = 300 if q else 4000
    for i in range(nr):
        H = rng.choice([1, 2, 3, 5, 10, 30] if not q else [1, 2, 3, 5, 10])
        specs.append({"id": "r%d" % i, "hb": H, "scale": 4, "phase": rng.choice([0, 1, 2, 3]),
                      "revs": PRE + random_script(rng, H, (4 * H + 4) * 4 + rng.randint(0, 8 * H))})
    # fault histories: the transport fails (drain raises) while the watchdog itself is writing its TestRequest, the connection is
    # lost and the same object gets a second connection; the watchdog must guard that one like the first
    for H in ((1, 2, 3) if q else (1, 2, 3, 5, 10)):
        for ph in (0, 1, 2, 3):
            for k in (0, 2, 5):
                quiet = [{"t": "adv"}] * (4 * (H - 1) + k)
                window = [{"t": "adv", "faildrain": True}] * 8
                second = [{"t": "eof"}, {"t": "attach"}, RF("LOGON", 0)] + [{"t": "adv"}] * (4 * (3 * H + 2))
                specs.append({"id": "f%d.%d.%d" % (H, ph, k), "hb": H, "scale": 4, "phase": ph, "revs": PRE + quiet + window + second})
                specs.append({"id": "f%d.%d.%da" % (H, ph, k), "hb": H, "scale": 4, "phase": ph,
                              "revs": PRE + quiet + window + second[:3] + [{"t": "adv"}] * (4 * H + 2) + [RF("HB", 0, "match")] + [{"t": "adv"}] * (4 * 2 * H)})
    ctx.log("executing %d schedules on the real heartbeat task (%d from the model, %d random incl. larger intervals)" % (len(specs), nmodel, nr))
    recs = pmap(session.run_trace, specs)
    ctx.log("evaluating %d steps with TLC (HeartbeatEval)" % sum(len(r["steps"]) for r in recs))
    verd = tlc.evaluate(ctx.sub("eval"), "HeartbeatEval", recs, shard_size=max(20, min(600, len(recs) // 16 + 1)), jobs=16,
                        cfg_text=sessrun.eval_cfg(), timeout=2400)
    collect(ctx, out, recs, verd, specs)
    out.samples = [{"id": r["id"], "H": r["H"], "events": [(s["ev"]["t"], s["ev"].get("now"), (s["ev"].get("f") or {}).get("kind")) for s in r["steps"] if s["ev"]["t"] != "adv" or s["out"]["wrote"] or s["out"]["cb"]][:20]} for r in (recs[nmodel // 2], recs[-1])]
    out.exhaustive = True
    out.extra.update({"model_behaviours_replayed": nmodel, "random_schedules": nr, "model_instances(H,phase,MaxArr)": insts,
                      "time_unit": "1/4 s"})
    out.assumptions = ["the watchdog wakes once per virtual second; arrivals at quarter-second granularity",
                       "'about one interval' = [H-1, H+1] s, 'about three intervals' <= 3H+3 s; a peer counts as live if its valid traffic leaves no silence >= H-1 s or every TestRequest is answered in sequence within 2H-2 s"]
    return out


def replay(ctx, inp):
    out = Outcome()
    rec = session.run_trace(inp)
    verd = tlc.evaluate(ctx.sub("eval"), "HeartbeatEval", [rec], cfg_text=sessrun.eval_cfg())
    collect(ctx, out, [rec], verd, [inp])
    out.states = out.transitions = 1
    out.samples = [rec["id"]]
    return out
