"""C04 - in-order, exactly-once inbound delivery; one ResendRequest per gap."""
from ..core import Outcome
from .. import sessrun


def run(ctx):
    out = Outcome()
    sessrun.run_property(ctx, out, "C04")
    return out


def replay(ctx, inp):
    out = Outcome()
    sessrun.replay_one(ctx, out, "C04", inp)
    return out
