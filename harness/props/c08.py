"""C08 - the journal survives a process crash at any point.

Spec: spec/JournalTx.tla (durable vs connection view, statement lists, Crash/Close),
spec/JournalCrashEval.tla (clauses J1, J3, J4, J5 on real crash experiments).
Binding: every operation sequence TLC reaches (shortest path to each distinct model
state + every next operation) is run in a forked child on a real file; the child
os._exit()s at every statement/commit boundary of the last operation (sqlite3 proxy),
right after it returned, or closes normally; the parent reopens and projects.
"""
import os
import random
import shutil

from .. import tlc
from ..core import Outcome
from ..par import pmap
from . import c13

DIRS = ["in", "out"]


def tx_cfg(n, dump, commits=True, inv=True, view=False):
    s = "SPECIFICATION Spec\nCONSTANTS\n SetSeqCommits = %s\n MaxOps = %d\n Dump = %s\n" % (
        "TRUE" if commits else "FALSE", n, "TRUE" if dump else "FALSE")
    if inv:
        s += "INVARIANT J1\nINVARIANT J3\nINVARIANT J4\nINVARIANT Refines\n"
    if view:
        s += "VIEW View\n"
    if dump:
        s += "INVARIANT Inv_DumpState\n"
    return s + "CHECK_DEADLOCK FALSE\n"


def _run_ops(fn, ops, upto_last_armed, shim):
    from asyncfix.journaler import Journaler
    from asyncfix.message import MessageDirection
    from asyncfix.errors import DuplicateSeqNoError
    D = {"in": MessageDirection.INBOUND, "out": MessageDirection.OUTBOUND}
    if shim is not None and not ops:
        shim.armed = True          # the operation in flight is the very first open of a new file (schema creation)
    j = Journaler(fn)
    objs = []
    for i, o in enumerate(ops):
        if shim is not None and i == len(ops) - 1:
            shim.armed = True
        k = o["op"]
        if k == "col":
            objs.append(j.create_or_load(o["t"], o["s"]))
        elif k == "persist":
            try:
                j.persist_msg(c13._frame(o["seq"], o["data"].encode("latin-1")), objs[o["so"] - 1], D[o["dir"]])
            except DuplicateSeqNoError:
                pass
        elif k == "setseq":
            j.set_seq_num(objs[o["so"] - 1], next_num_out=o["a"] or None, next_num_in=o["b"] or None)
    if shim is not None:
        shim.armed = False
    return j


def _project(fn):
    """Fresh Journaler on the file, public API only."""
    from asyncfix.journaler import Journaler
    from asyncfix.message import MessageDirection
    DN = {MessageDirection.INBOUND.value: "in", MessageDirection.OUTBOUND.value: "out"}
    usable = "ok"
    R = {"sess": [], "rows": []}
    try:
        j = Journaler(fn)
        ss = sorted(j.sessions().items(), key=lambda kv: kv[1].key)
        for idx, ((t, s), so) in enumerate(ss):
            R["sess"].append({"t": t, "s": s, "out": so.next_num_out - 1, "inn": so.next_num_in - 1})
            if so.key != idx + 1:
                usable = "session keys not contiguous"
            c = j.create_or_load(t, s)
            if (c.key, c.next_num_out, c.next_num_in) != (so.key, so.next_num_out, so.next_num_in):
                usable = "load paths disagree"
        allm = j.get_all_msgs()
        R["rows"] = [{"seq": a, "key": d, "dir": DN[c], "data": c13._h(b)} for (a, b, c, d) in allm]
        for (t, s), so in ss:
            for dn, d in (("in", MessageDirection.INBOUND), ("out", MessageDirection.OUTBOUND)):
                got = [c13._h(b) for b in j.recover_messages(so, d, 0, 2 ** 31 - 1)]
                exp = [r["data"] for r in sorted((r for r in R["rows"] if r["key"] == so.key and r["dir"] == dn),
                                                 key=lambda r: r["seq"])]
                if got != exp:
                    usable = "recover_messages disagrees with get_all_msgs"
        # still writable
        so = j.create_or_load("__probe__", "__probe__")
        j.persist_msg(c13._frame(424242, b"p"), so, MessageDirection.OUTBOUND)
        j.set_seq_num(so, next_num_out=7, next_num_in=9)
        if j.recover_msg(so, MessageDirection.OUTBOUND, 424242) is not None:
            usable = "set_seq_num did not remove a row after reopen"
        del j
    except Exception as ex:
        usable = "err:%s:%s" % (type(ex).__name__, ex)
    return R, usable


def _copy(fn, dst):
    """Snapshot of the database file and its rollback journal as they are on disk right now:
    exactly what a process death at this instant leaves behind."""
    for suf in ("", "-journal"):
        if os.path.exists(fn + suf):
            shutil.copyfile(fn + suf, dst + suf)


def _concrete(inp):
    ops = [dict(o) for o in inp["ops"]]
    mops = []
    for o in ops:
        m = dict(o)
        if o["op"] == "persist":
            m["data"] = c13._h(c13._frame(o["seq"], o["data"].encode("latin-1")))
        mops.append(m)
    return ops, mops


def _rm(fn):
    for suf in ("", "-journal"):
        if os.path.exists(fn + suf):
            os.remove(fn + suf)


def execute(inp):
    """inp = {id, ops, dir, fork?}: run ops on a real file; a crash at every statement/commit
    boundary of the last op, right after it returned, and a normal close.  Default
    realisation: on-disk snapshot of db + rollback journal at the boundary (what a process
    death leaves); with inp['fork'] each point is additionally a real os._exit() in a child."""
    from .. import crash
    base = inp["dir"]
    os.makedirs(base, exist_ok=True)
    ops, mops = _concrete(inp)
    fn = os.path.join(base, "%s.db" % inp["id"])
    _rm(fn)
    snaps = []
    shim = crash.Shim()

    def on_point(k, label):
        dst = os.path.join(base, "%s_c%d.db" % (inp["id"], k))
        _copy(fn, dst)
        snaps.append(("crash", k, dst, label))
    shim.on_point = on_point
    crash.install(shim)
    try:
        j = _run_ops(fn, ops, True, shim)
        dst = os.path.join(base, "%s_end.db" % inp["id"])
        _copy(fn, dst)
        snaps.append(("end", 0, dst, "returned"))
        del j
        dst = os.path.join(base, "%s_close.db" % inp["id"])
        _copy(fn, dst)
        snaps.append(("close", 0, dst, "closed"))
    finally:
        crash.uninstall()
        _rm(fn)
    nb = shim.count
    recs = []
    for mode, k, dst, label in snaps:
        R, usable = _project(dst)
        _rm(dst)
        recs.append({"id": "%s/%s%s" % (inp["id"], mode, k or ""), "ops": mops, "mode": mode, "point": k,
                     "label": label, "boundaries": nb, "R": R, "usable": usable, "how": "snapshot"})
    if inp.get("fork"):
        for mode, target in [("crash", k) for k in range(1, nb + 1)] + [("end", None), ("close", None)]:
            fn2 = os.path.join(base, "%s_f_%s_%s.db" % (inp["id"], mode, target))
            _rm(fn2)
            pid = os.fork()
            if pid == 0:
                try:
                    sh = crash.Shim()
                    sh.target = target
                    crash.install(sh)
                    j = _run_ops(fn2, ops, True, sh)
                    if mode == "close":
                        del j
                    os._exit(0)
                except BaseException:
                    os._exit(3)
            _, st = os.waitpid(pid, 0)
            R, usable = _project(fn2)
            if os.WEXITSTATUS(st) != 0:
                usable = "child failed rc=%d" % os.WEXITSTATUS(st)
            _rm(fn2)
            recs.append({"id": "%s/fork-%s%s" % (inp["id"], mode, target or ""), "ops": mops, "mode": mode,
                         "point": target or 0, "label": "", "boundaries": nb, "R": R, "usable": usable, "how": "fork+_exit"})
    return recs


def mutators(nobjs, seqs, sv):
    ops = []
    if nobjs < 2:
        ops += [{"op": "col", "t": t, "s": s} for (t, s) in (("T", "S"), ("S", "T"))]
    for so in range(1, nobjs + 1):
        for d in DIRS:
            for n in seqs:
                ops.append({"op": "persist", "so": so, "dir": d, "seq": n, "data": "a"})
        for a, b in sv:
            ops.append({"op": "setseq", "so": so, "a": a, "b": b})
    return ops


def _scratch(ctx):
    base = "/dev/shm" if os.path.isdir("/dev/shm") and os.access("/dev/shm", os.W_OK) else ctx.work
    d = os.path.join(base, "verif_c08_%d" % os.getpid())
    os.makedirs(d, exist_ok=True)
    return d


def _evaluate(ctx, out, recs, inputs_by_id):
    verd = tlc.evaluate(ctx.sub("eval"), "JournalCrashEval", recs, shard_size=max(200, len(recs) // 16 + 1), jobs=16)
    for rec, v in zip(recs, verd):
        out.traces += 1
        out.clause_hits[{"crash": "J1", "end": "J3", "close": "J4"}[rec["mode"]]] = \
            out.clause_hits.get({"crash": "J1", "end": "J3", "close": "J4"}[rec["mode"]], 0) + 1
        out.clause_hits["J5"] = out.clause_hits.get("J5", 0) + 1
        if rec["mode"] == "crash":
            out.extra.setdefault("recovered_state", {}).setdefault(v["which"], 0)
            out.extra["recovered_state"][v["which"]] += 1
        if not v["fails"]:
            out.traces_ok += 1
        for c in v["fails"]:
            out.failures.append({"clause": c, "triggers": [], "input": inputs_by_id[rec["id"].split("/")[0]],
                                 "detail": {"crash": rec["id"], "recovered": rec["R"], "usable": rec["usable"],
                                            "model_after": v["expected_after"], "ops": rec["ops"]},
                                 "trace": rec})


def run(ctx):
    out = Outcome()
    q = ctx.quick
    r = tlc.model_check(ctx.sub("mc"), "JournalTx", tx_cfg(3 if q else 4, False), timeout=1500, heap="8g")
    out.add_tlc(r)
    ctx.log("design (transactional journal, crash at every statement boundary): %d states, J1/J3/J4/Refines hold" % r["distinct"])
    # self-check of the formulas: without the commit in set_seq_num TLC must find the loss
    r0 = tlc.model_check(ctx.sub("mc0"), "JournalTx", tx_cfg(2, False, commits=False), timeout=600, expect_violation=True)
    if not r0["violated"]:
        raise tlc.MachineryError("JournalTx without commit in set_seq_num should violate J1/J3/J4 (vacuity self-check)")
    d = tlc.dump_edges(ctx.sub("dump"), "JournalTx", tx_cfg(2 if q else 3, True, inv=False, view=True), marker="STATE", timeout=1500)
    paths = d["edges"]
    ctx.log("operation paths to %d distinct quiescent model states" % len(paths))
    scratch = _scratch(ctx)
    try:
        inputs = []
        seqs = [1, 2]
        sv = [(0, 1), (3, 0), (1, 1), (2, 2), (0, 2)]
        seen = set()
        for si, p in enumerate(paths):
            nobjs = sum(1 for o in p if o["op"] == "col")
            for mi, m in enumerate(mutators(nobjs, seqs, sv)):
                ops = list(p) + [m]
                key = repr(ops)
                if key in seen:
                    continue
                seen.add(key)
                inputs.append({"id": "s%dm%d" % (si, mi), "ops": ops, "dir": scratch})
        rng = random.Random(ctx.seed * 31 + 8)
        for k, i in enumerate(inputs):
            if k % (20 if q else 10) == 0:
                i["fork"] = True
        # random longer histories
        nr = 2000 if q else 40000
        for i in range(nr):
            ops = [{"op": "col", "t": "T", "s": "S"}]
            nobj = 1
            for _ in range(rng.randint(1, 7)):
                x = rng.random()
                if x < 0.15 and nobj < 3:
                    ops.append({"op": "col", "t": rng.choice(["T", "S", "X"]), "s": rng.choice(["T", "S"])}); nobj += 1
                elif x < 0.7:
                    ops.append({"op": "persist", "so": rng.randint(1, nobj), "dir": rng.choice(DIRS),
                                "seq": rng.choice([1, 2, 3, 4, 9, 100000]), "data": rng.choice(["a", "b", "c|d=e"])})
                else:
                    a = rng.choice([0, 1, 2, 3, 5, 50]); b = rng.choice([0, 1, 2, 4, 50])
                    if a + b == 0:
                        a = 1
                    ops.append({"op": "setseq", "so": rng.randint(1, nobj), "a": a, "b": b})
            inputs.append({"id": "r%d" % i, "ops": ops, "dir": scratch, "fork": i % 100 == 0})
        # the first open of a new journal file (schema creation) as the operation in flight, also with real os._exit children
        inputs.append({"id": "open", "ops": [], "dir": scratch, "fork": True})
        ctx.log("running %d operation sequences x every crash point of the last operation (forked children, real files in %s)" % (len(inputs), scratch))
        parts = pmap(execute, inputs, chunk=8)
        recs = [r for p in parts for r in p]
        by_id = {i["id"]: {"id": i["id"], "ops": i["ops"]} for i in inputs}
        ctx.log("%d crash/close experiments" % len(recs))
        _evaluate(ctx, out, recs, by_id)
        out.samples = [recs[0], recs[len(recs) // 2]]
        out.exhaustive = True
        out.extra.update({"operation_sequences": len(inputs), "crash_experiments": len(recs),
                          "of_which_real_process_death(fork+_exit)": sum(1 for r in recs if r["how"] != "snapshot"),
                          "bounds": {"design MaxOps": 3 if q else 4, "replay paths MaxOps": 2 if q else 3}})
        out.assumptions = ["SQLite's rollback journal makes each COMMIT atomic across a process death (trusted, as the property's anchor says)",
                           "a crash point is realised as an on-disk snapshot of the database file and its rollback journal at that boundary (exactly what a process death leaves for the next process); a sample of the sequences is additionally run with a real os._exit() in a forked child and must give the same verdicts; power loss / torn pages are out of scope",
                           "crash points are the boundaries before and after every cursor.execute() and every commit() of the operation in flight, plus right after it returned"]
    finally:
        shutil.rmtree(scratch, ignore_errors=True)
    return out


def replay(ctx, inp):
    out = Outcome()
    scratch = _scratch(ctx)
    try:
        inp = dict(inp, dir=scratch)
        recs = execute(inp)
        _evaluate(ctx, out, recs, {inp["id"]: {"id": inp["id"], "ops": inp["ops"]}})
        out.states = out.transitions = 1
        out.samples = recs[:2]
    finally:
        shutil.rmtree(scratch, ignore_errors=True)
    return out
