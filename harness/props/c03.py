"""C03 - stream reassembly is independent of how the byte stream is chunked.

Spec: spec/Reassembly.tla (reader loop + reference decoder contract over concrete bytes;
TLC explores every partition into <= 3 reads and checks ChunkIndependence).  Binding: the
real socket_read_task with a hand-fed StreamReader: streams of real frames (session and
application types, groups, optional marker-free garbage between them), exhaustively all
1-cut and 2-cut partitions of small streams, random multi-cut partitions and 1-byte reads of
larger ones; after every read TLC (spec/WireEval.tla, kind "reads") compares the number of
journaled inbound frames with the number of frames that have completely arrived."""
import json
import os
import random

from ..core import Outcome
from ..par import pmap
from .. import wirecheck as W
from .. import tlc
from ..net import PeerCodec

GARBAGE = [b"", b"x", b"8", b"8=", b"=FIX", b"\x01", b"8=FI", b"9=5\x01", b"10=000\x01"]
# longer marker-free garbage (keep-alives, padding, a foreign protocol's line): every one is placed before each frame
# of a two-frame stream and all 1-cut partitions are fed
LONG_GARBAGE = [b"10=000\x01", b"<keepalive>", b"\r\n\r\n\r\n\r\n", b"\x00" * 24, b"GET / HTTP/1.1\r\nHost: x\r\n\r\n", b"9=12\x0135=0\x0110=000\x01",
                b"8=FI" * 5, b"=" * 13, b"x" * 64]


def make_stream(rng, nframes, garbage):
    p = PeerCodec("B", "A")
    parts, ends, expect = [], [], []
    pos = 0
    for i in range(nframes):
        g = rng.choice(GARBAGE) if garbage else b""
        kind = rng.choice(["APP", "APP", "HB", "TR"])
        seq = 2 + i
        if kind == "APP":
            # values that look like framing: a marker, a CheckSum field, a BodyLength field inside a value
            f = p.frame("APP", seq, pay="p%d" % seq + rng.choice(["", "", "xxx", "x" * 40, " 8=FIX.4.4 ", "10=000", " 9=12 ", "8=FIX.4.4\x029=5"]))
            expect.append(seq)
        elif kind == "HB":
            f = p.frame("HB", seq)
        else:
            f = p.frame("TR", seq, trid="T%d" % seq)
        parts.append(g + f)
        pos += len(g) + len(f)
        ends.append(pos)
    tailg = rng.choice([b"", b"", b"8=F", b"zz"]) if garbage else b""
    stream = b"".join(parts) + tailg
    keep = 0
    for k in range(min(5, len(tailg)), 0, -1):
        if tailg.endswith(b"8=FIX."[:k]):
            keep = k
            break
    return stream, ends, expect, keep


def cuts_to_chunks(stream, cuts):
    cs = [0] + sorted(cuts) + [len(stream)]
    return [stream[a:b] for a, b in zip(cs, cs[1:]) if b > a]


def _run(a):
    return W.reads_record(*a)


def run(ctx):
    out = Outcome()
    q = ctx.quick
    rng = random.Random(ctx.seed * 19 + 3)
    # (1) design: the reference contract is chunk independent for every partition into <= 3 reads
    for si in range(2 if q else 4):
        fr = W.peer_frames(2, start=2, kind="HB")
        g1, g2 = (b"x8", b"=FI\x01") if si == 0 else (rng.choice(GARBAGE), rng.choice(GARBAGE))
        st = g1 + fr[0] + g2 + fr[1]
        w = ctx.sub("mc%d" % si)
        sf = os.path.join(w, "stream.json")
        with open(sf, "w") as fh:
            json.dump({"bytes": list(st), "ends": [len(g1) + len(fr[0]), len(st)]}, fh)
        r = tlc.model_check(w, "Reassembly", "SPECIFICATION Spec\nCONSTANTS\n MaxReads = 3\nINVARIANT ChunkIndependence\nCHECK_DEADLOCK FALSE\n",
                            env={"STREAM_FILE": sf}, timeout=1800)
        out.add_tlc(r)
        ctx.log("Reassembly model, %d-byte stream: %d partitions/transitions, ChunkIndependence holds" % (len(st), r["generated"]))
    # (2) the real reader
    jobs = []
    n = 0
    for si in range(3 if q else 10):
        stream, ends, expect, keep = make_stream(rng, 2 if si < 2 else 3, garbage=(si % 2 == 1))
        L = len(stream)
        for c in range(1, L):
            jobs.append(("s%d.c%d" % (si, c), cuts_to_chunks(stream, [c]), ends, expect, keep))
        pairs = [(a, b) for a in range(1, L) for b in range(a + 1, L)]
        if q:
            pairs = rng.sample(pairs, min(len(pairs), 2500))
        elif si >= 3:
            pairs = rng.sample(pairs, min(len(pairs), 6000))
        for a, b in pairs:
            jobs.append(("s%d.c%d_%d" % (si, a, b), cuts_to_chunks(stream, [a, b]), ends, expect, keep))
        jobs.append(("s%d.bytes" % si, [bytes([x]) for x in stream], ends, expect, keep))
    p = PeerCodec("B", "A")
    for gi, g in enumerate(LONG_GARBAGE):
        f1 = p.frame("APP", 2, pay="p2")
        f2 = p.frame(rng.choice(["HB", "APP"]), 3)
        stream = g + f1 + g + f2
        ends = [len(g) + len(f1), len(stream)]
        for c in range(1, len(stream)):
            jobs.append(("lg%d.c%d" % (gi, c), cuts_to_chunks(stream, [c]), ends, [2] + ([3] if b"35=D" in f2 else []), 0))
        if not q:
            L = len(stream)
            for a, b in rng.sample([(a, b) for a in range(1, L) for b in range(a + 1, L)], 3000):
                jobs.append(("lg%d.c%d_%d" % (gi, a, b), cuts_to_chunks(stream, [a, b]), ends, [2] + ([3] if b"35=D" in f2 else []), 0))
    # frames longer than one read(4096) of the reader loop: fed whole (the library itself splits them at 4096), cut at every
    # position of their last bytes and around the 4096 boundary, alone, behind and in front of a small frame
    def sized(seq, total):
        n = max(1, total - len(p.frame("APP", seq, pay="p%d" % seq)))
        for _ in range(4):
            f = p.frame("APP", seq, pay="p%d" % seq + "x" * n)
            if len(f) == total:
                break
            n += total - len(f)
        return f
    small2, small3 = p.frame("APP", 2, pay="p2"), p.frame("HB", 3)
    for total in ((4097, 4098, 4100, 4104, 5000, 8195) if q else (4090, 4096, 4097, 4098, 4099, 4100, 4101, 4104, 4200, 5000, 8191, 8195, 12300)):
        for bi, (stream, ends, expect) in enumerate([(sized(2, total), [total], [2]),
                                                     (small2 + sized(3, total), [len(small2), len(small2) + total], [2, 3]),
                                                     (sized(2, total) + small3, [total, total + len(small3)], [2])]):
            L = len(stream)
            cutset = {L} | set(range(max(1, ends[-1] - 9), ends[-1])) | set(range(max(1, ends[0] - 9), ends[0] + 2)) | set(range(4094, 4099))
            if bi == 1:
                cutset |= set(range(len(small2) + 4094, len(small2) + 4099))
            for c in sorted(x for x in cutset if 0 < x <= L):
                jobs.append(("big%d.%d.c%d" % (total, bi, c), cuts_to_chunks(stream, [c] if c < L else []), ends, expect, 0))
        if total in (4098, 4100):
            st = sized(2, total)
            jobs.append(("big%d.bytes" % total, [bytes([x]) for x in st], [total], [2], 0))
    for si in range(40 if q else 600):
        stream, ends, expect, keep = make_stream(rng, rng.randint(1, 8), garbage=rng.random() < 0.5)
        L = len(stream)
        k = rng.randint(1, min(12, L - 1))
        jobs.append(("r%d" % si, cuts_to_chunks(stream, rng.sample(range(1, L), k)), ends, expect, keep))
        if si % 10 == 0:
            jobs.append(("r%d.bytes" % si, [bytes([x]) for x in stream], ends, expect, keep))
    ctx.log("feeding %d chunkings to the real socket_read_task" % len(jobs))
    recs = pmap(_run, jobs)
    verd = W.evaluate(ctx, recs)
    for rec, v, job in zip(recs, verd, jobs):
        out.traces += 1
        if rec.get("harness_error"):
            out.failures.append({"clause": "HARNESS", "triggers": [], "input": {"id": rec["id"]}, "detail": rec["harness_error"], "trace": None})
            continue
        out.clause_hits["reads"] = out.clause_hits.get("reads", 0) + len(rec["reads"])
        if not v["fails"]:
            out.traces_ok += 1
        for c in v["fails"]:
            out.failures.append({"clause": c, "triggers": [], "input": {"id": rec["id"], "chunks": [ch.decode("latin-1") for ch in job[1]], "ends": job[2], "expect": job[3], "tail": job[4]},
                                 "detail": {"cuts": rec["cuts"], "reads": rec["reads"][:6], "ends": rec["ends"], "deliv": rec["deliv"], "expect": rec["expect"], "buflen": rec["buflen"]}, "trace": None})
    out.samples = [{"id": r["id"], "cuts": r["cuts"], "ends": r["ends"], "reads": r["reads"][:5]} for r in recs[:1] + recs[-1:]]
    out.exhaustive = True
    out.extra["chunkings"] = len(jobs)
    out.assumptions = ["frames are valid and in sequence (malformed input is C10)", "garbage between frames contains no complete frame-start marker"]
    return out


def replay(ctx, inp):
    out = Outcome()
    rec = W.reads_record(inp["id"], [c.encode("latin-1") for c in inp["chunks"]], inp["ends"], inp["expect"], inp["tail"])
    verd = W.evaluate(ctx, [rec])
    out.traces = 1
    for c in verd[0]["fails"]:
        out.failures.append({"clause": c, "triggers": [], "input": inp, "detail": rec["reads"][:6], "trace": None})
    if not verd[0]["fails"]:
        out.traces_ok = 1
    out.states = out.transitions = 1
    out.samples = [inp["id"]]
    return out
