"""C17 - an order object converges to the exchange's view of the order.

Spec: spec/OrderLifeFn.tla (client order object transcribed method by method + an exchange
following the FIX 4.4 order state change matrices, as one step function), spec/OrderLife.tla
(state machine: all interleavings incl. the two in-flight queues, clauses O1-O5),
spec/OrderLifeEval.tla (judges the real FIXNewOrderSingle).  The exchange exists only in
TLA+: every report the real object processes was produced by the model."""
import random

from ..core import Outcome
from ..par import pmap
from .. import tlc


def cfg(q, mr, me, dump, inv=True):
    s = "SPECIFICATION Spec\nCONSTANTS\n Qty0 = %d\n MaxReq = %d\n MaxEx = %d\n Dump = %s\nVIEW View\n" % (q, mr, me, "TRUE" if dump else "FALSE")
    if inv:
        s += "".join("INVARIANT %s\n" % i for i in ("O1", "O2", "O3", "O3l", "O4", "O5"))
    if dump:
        s += "INVARIANT Inv_DumpState\n"
    return s + "CHECK_DEADLOCK FALSE\n"


ROOTS = ["r", "ord1", "a--b", "x--y--z", "клиент".encode("utf-8").decode("latin-1"), "id with space", "1--a", "A" * 40,
         # "--" followed by digits in the middle of the root (the root does not END in --<n>), digits around the separator
         "book--3--leg", "x17--20260922T", "7--7--x", "a--1b"]


def execute(spec):
    import sys
    if __import__("harness").REPO not in sys.path:
        sys.path.insert(0, __import__("harness").REPO)
    from asyncfix import FIXMessage, FMsg, FTag
    from asyncfix.protocol.order_single import FIXNewOrderSingle
    from asyncfix.protocol.common import FOrdStatus
    root, unit, pxu, qty0 = spec["root"], spec["unit"], spec["pxunit"], spec["qty0"]

    def rid(mid):      # model id "r--n" -> real id
        return root + mid[1:] if mid else mid

    def mid(real):     # real id -> model id
        if real is None:
            return ""
        real = str(real)
        return "r" + real[len(root):] if real.startswith(root) else "?" + real

    def units(x, u):
        try:
            return int(round(float(x) / u))
        except Exception:
            return -999

    o = FIXNewOrderSingle(root, "TICK", "1", 10 * pxu, qty0 * unit)
    steps = []
    nexec = 0
    for ev in spec["evs"]:
        ob = {"exc": "none", "req": {"id": "", "orig": "", "qty": 0, "px": 0}}
        a = ev["a"]
        try:
            m = None
            if a == "c_new":
                m = o.new_req()
            elif a == "c_cancel":
                m = o.cancel_req()
            elif a == "c_replace":
                m = o.replace_req(price=float(o.price) + ev["dp"] * pxu, qty=float(o.qty) + ev["dq"] * unit)
            elif a == "c_recv":
                r = ev["m"]
                if r["t"] == "er":
                    nexec += 1
                    f = FIXMessage(FMsg.EXECUTIONREPORT, {FTag.ClOrdID: rid(r["clord"]), FTag.OrderID: "X1", FTag.ExecID: "E%d" % nexec,
                                                           FTag.ExecType: r["et"], FTag.OrdStatus: r["os"], FTag.CumQty: r["cum"] * unit,
                                                           FTag.LeavesQty: r["leaves"] * unit, FTag.AvgPx: 0, FTag.OrderQty: r["qty"] * unit,
                                                           FTag.Price: r["px"] * pxu, FTag.Symbol: "TICK", FTag.Side: "1"})
                    if r["orig"]:
                        f[FTag.OrigClOrdID] = rid(r["orig"])
                    o.process_execution_report(f)
                else:
                    f = FIXMessage(FMsg.ORDERCANCELREJECT, {FTag.ClOrdID: rid(r["clord"]), FTag.OrigClOrdID: rid(r["orig"]), FTag.OrderID: "X1",
                                                             FTag.OrdStatus: r["os"], FTag.CxlRejResponseTo: "1"})
                    o.process_cancel_rej_report(f)
            if m is not None:
                ob["req"] = {"id": mid(m[FTag.ClOrdID]), "orig": mid(m.get(FTag.OrigClOrdID, None)) if FTag.OrigClOrdID in m else "",
                             "qty": units(m[FTag.OrderQty], unit), "px": units(m.get(FTag.Price, 0), pxu) if FTag.Price in m else 0}
        except Exception as ex:
            ob["exc"] = type(ex).__name__ + ":" + str(ex)[:60]
        st = o.status
        ob.update({"st": str(st.value) if isinstance(st, FOrdStatus) else str(st), "enum": isinstance(st, FOrdStatus),
                   "clord": mid(o.clord_id), "orig": mid(o.orig_clord_id), "qty": units(o.qty, unit), "px": units(o.price, pxu),
                   "cum": units(o.cum_qty, unit), "leaves": units(o.leaves_qty, unit)})
        for name, fn in (("can_cancel", o.can_cancel), ("can_replace", o.can_replace), ("finished", o.is_finished)):
            try:
                ob[name] = bool(fn())
            except Exception as ex:
                ob[name] = False
                ob["exc"] = ob["exc"] if ob["exc"] != "none" else type(ex).__name__
        # "a finished order refuses further requests": try both requests on a copy whenever the order is finished
        ob["probe_cancel"] = ob["probe_replace"] = "not_probed"
        if ob.get("finished"):
            import copy
            for name, call in (("probe_cancel", lambda c: c.cancel_req()),
                               ("probe_replace", lambda c: c.replace_req(price=float(c.price) + pxu, qty=float(c.qty) + unit))):
                c2 = copy.deepcopy(o)
                before = (str(c2.status), str(c2.clord_id), str(c2.orig_clord_id), float(c2.qty), float(c2.price))
                try:
                    call(c2)
                    ob[name] = "built"
                except Exception as ex:
                    after = (str(c2.status), str(c2.clord_id), str(c2.orig_clord_id), float(c2.qty), float(c2.price))
                    ob[name] = "refused" if after == before else "refused_but_changed"
                    ob[name + "_exc"] = type(ex).__name__
        steps.append({"ev": ev, "obs": ob})
    return {"id": spec["id"], "steps": steps}


def maximal(hists):
    """drop behaviours that are a proper prefix of another one"""
    import json
    keys = sorted((json.dumps(h, sort_keys=True)[:-1] for h in hists))
    out = []
    for i, k in enumerate(keys):
        if i + 1 < len(keys) and keys[i + 1].startswith(k):
            continue
        out.append(json.loads(k + "]"))
    return out


def run(ctx):
    out = Outcome()
    q = ctx.quick
    big = (2, 2, 6) if q else (3, 2, 8)
    r = tlc.model_check(ctx.sub("mc"), "OrderLife", cfg(*big, dump=False), timeout=2400, heap="10g")
    out.add_tlc(r)
    ctx.log("OrderLife model (Qty0=%d, <=%d requests, <=%d exchange steps): %d states, O1-O5 hold" % (big + (r["distinct"],)))
    small = (2, 1, 4) if q else (2, 2, 5)
    d = tlc.dump_edges(ctx.sub("dump"), "OrderLife", cfg(*small, dump=True, inv=False), marker="STATE", timeout=2400)
    beh = maximal(d["edges"])
    sim = tlc.simulate(ctx.sub("sim"), "OrderLife", cfg(3, 4, 14, dump=True, inv=False), num=800 if q else 8000, depth=40, seed=ctx.seed + 17, marker="STATE", timeout=1200)
    simb = maximal(sim["items"])
    ctx.log("%d maximal behaviours of the exhaustive instance %s + %d random behaviours (TLC -simulate, depth 40)" % (len(beh), small, len(simb)))
    rng = random.Random(ctx.seed * 31 + 17)
    specs = []
    for i, h in enumerate(beh + simb):
        qty0 = small[0] if i < len(beh) else 3
        specs.append({"id": "b%d" % i, "evs": h, "qty0": qty0, "root": rng.choice(ROOTS), "unit": rng.choice([1, 1, 10, 0.1, 100000, 0.25]),
                      "pxunit": rng.choice([1, 0.5, 100, 0.01])})
    recs = pmap(execute, specs)
    for rec, sp in zip(recs, specs):
        rec["qty0"] = sp["qty0"]
    # Qty0 is a constant of the evaluator: evaluate the two groups separately
    groups = {}
    for rec, sp in zip(recs, specs):
        groups.setdefault(sp["qty0"], []).append((rec, sp))
    for qty0, lst in groups.items():
        verd = tlc.evaluate(ctx.sub("eval%d" % qty0), "OrderLifeEval", [x[0] for x in lst], shard_size=max(20, len(lst) // 16 + 1), jobs=16,
                            cfg_text="CONSTANTS\n Qty0 = %d\n" % qty0, timeout=2400)
        for (rec, sp), v in zip(lst, verd):
            out.traces += 1
            out.clause_hits["steps"] = out.clause_hits.get("steps", 0) + len(rec["steps"])
            out.clause_hits["quiescent_points"] = out.clause_hits.get("quiescent_points", 0) + v["nquiet"]
            if v["drift"]:
                out.drift += len(v["drift"])
                if len(out.drift_samples) < 5:
                    i = v["drift"][0]
                    out.drift_samples.append({"trace": rec["id"], "step": i, "ev": rec["steps"][i - 1]["ev"], "obs": rec["steps"][i - 1]["obs"]})
            if not v["fails"] and not v["drift"]:
                out.traces_ok += 1
            seen = set()
            for f in v["fails"]:
                if f["clause"] in seen:
                    continue
                seen.add(f["clause"])
                stp = rec["steps"][f["step"] - 1]
                out.failures.append({"clause": f["clause"], "triggers": [], "input": sp,
                                     "detail": {"step": f["step"], "ev": stp["ev"], "obs": stp["obs"], "events": [s["ev"]["a"] for s in rec["steps"][:f["step"]]],
                                                "root": sp["root"], "unit": sp["unit"]}, "trace": None})
    out.samples = [{"id": r["id"], "events": [s["ev"]["a"] for s in r["steps"]]} for r in recs[:1] + recs[-1:]]
    out.exhaustive = True
    out.extra.update({"exhaustive_behaviours": len(beh), "simulated_behaviours": len(simb), "bounds": {"design": list(big), "replay": list(small)}})
    out.assumptions = ["the exchange follows the FIX 4.4 order state change matrices as modelled in OrderLifeFn.tla (replace of a suspended order is not defined there: the exchange resumes or rejects first)",
                       "fills of one unit; quantities and prices are scaled per trace (integers, fractional units, large values)",
                       "ClOrdID roots that do not themselves end in --<n>"]
    return out


def replay(ctx, inp):
    out = Outcome()
    rec = execute(inp)
    verd = tlc.evaluate(ctx.sub("eval"), "OrderLifeEval", [rec], cfg_text="CONSTANTS\n Qty0 = %d\n" % inp["qty0"])
    out.traces = 1
    for f in verd[0]["fails"]:
        stp = rec["steps"][f["step"] - 1]
        out.failures.append({"clause": f["clause"], "triggers": [], "input": inp, "detail": {"step": f["step"], "ev": stp["ev"], "obs": stp["obs"]}, "trace": None})
    if not verd[0]["fails"]:
        out.traces_ok = 1
    out.states = out.transitions = 1
    out.samples = [rec["id"]]
    return out
