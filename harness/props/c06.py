"""C06 - a ResendRequest is answered completely, in order and without side effects.

On top of the shared Session1 exploration: every outbound journal up to a length bound
(slot = application message / application message the replay filter declines / session
message / hole / message carrying PossDupFlag=N, an OrigSendingTime of its own, latin-1 text) x every (BeginSeqNo, EndSeqNo) in -1..last+2 (EndSeqNo also 0) x request
arriving in ACTIVE and while the receiver itself awaits a resend; each request is sent
twice (a repeated request must give the same reply) and followed by a fresh send.
Clauses R1-R6 of spec/SessionProps.tla are evaluated by TLC (spec/SessionEval.tla)."""
import itertools

from ..core import Outcome
from .. import sessrun


def RF(kind, rel, pd=False, **k):
    d = {"kind": kind, "rel": rel, "pd": pd, "gf": False, "nm": "rel", "nv": 0, "bm": "abs", "bv": 0, "em": "abs",
         "ev": 0, "trid": "", "hdr": "ok"}
    d.update(k)
    return {"t": "frame", "f": d}


def RS(kind, pay="", **k):
    d = {"kind": kind, "seqm": "none", "seqv": 0, "pd": False, "gf": False, "trid": "", "pay": pay}
    d.update(k)
    return {"t": "send", "m": d}


def journal_specs(maxlen, role_both=True):
    specs = []
    slots = "ADSHONL"
    n = 0
    for L in range(0, maxlen + 1):
        for pat in itertools.product(slots, repeat=L):
            sends = []
            for i, c in enumerate(pat):
                if c == "A":
                    sends.append(RS("APP", "11=a%d" % i))
                elif c == "D":
                    sends.append(RS("APP", "11=b"))
                elif c == "S":
                    sends.append(RS("HB"))
                elif c == "N":
                    sends.append(RS("APP", "11=n%d" % i, pdn=True))          # journaled with PossDupFlag=N spelled out
                elif c == "L":
                    sends.append(RS("APP", "11=l%d|1=Z\xfcrich caf\xe9\xff" % i))   # single-byte text outside ASCII: replayed byte for byte
                elif c == "O":
                    sends.append(RS("APP", "11=o%d|97=Y" % i, ost0=True))   # journaled with an OrigSendingTime of its own
                else:
                    sends.append(RS("APP", "11=BADENC"))   # number consumed, nothing journaled: a hole
            last = 1 + L      # Logon reply took number 1
            for awaiting in (False, True):
                pre = [{"t": "attach"}, RF("LOGON", 0)] + sends + ([RF("APP", 2)] if awaiting else [])
                lastn = last + (1 if awaiting else 0)   # our own ResendRequest consumed a number
                for b in range(-1, lastn + 3):
                    for e in [0] + list(range(-1, lastn + 3)):
                        if e == 0 and False:
                            continue
                        rr = RF("RR", 0, bm="abs", bv=b, em="abs", ev=e)
                        specs.append({"id": "j%d" % n, "declined": ["11=b"],
                                      "revs": pre + [rr, rr, RS("APP", "11=z")]})
                        n += 1
    return specs


def run(ctx):
    out = Outcome()
    if ctx.quick:
        extra = journal_specs(2)
    else:
        # all journals up to 3 messages + a seeded sample of 60 000 of the 259 200 four-message ones (memory, time)
        import random
        full = journal_specs(4)
        short = journal_specs(3)
        rest = full[len(short):]
        extra = short + random.Random(ctx.seed * 11 + 6).sample(rest, min(60000, len(rest)))
    out.extra["journal_x_request_traces"] = len(extra)
    sessrun.run_property(ctx, out, "C06", extra_specs=extra)
    return out


def replay(ctx, inp):
    out = Outcome()
    sessrun.replay_one(ctx, out, "C06", inp)
    return out
