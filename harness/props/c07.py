"""C07 - see spec/Net.tla, spec/NetEval.tla, harness/netcheck.py."""
from ..core import Outcome
from .. import netcheck


def run(ctx):
    out = Outcome()
    netcheck.run(ctx, out, "C07")
    return out


def replay(ctx, inp):
    out = Outcome()
    netcheck.replay(ctx, out, "C07", inp)
    return out
