"""C20 - the bundled test helper fabricates valid, consistent counterparty traffic.

(a) spec/Tester.tla + spec/TesterEval.tla: behaviours of the OrderLife model (spec/OrderLife.tla)
    are replayed on a real order object, every exchange report being fabricated by the real
    FIXTester.fix_exec_report_msg / fix_cxlrep_reject_msg from the model's report; at every state
    an additional grid of argument combinations is fabricated.  TLC judges H1 (valid w.r.t. the
    independently translated FIX44 dictionary, spec/SchemaValid.tla), H2 quantities, H3 fresh
    ExecID, H4 stable OrderID, H5 processed without error; the helper's own assertions are
    transcribed (HelperAccepts) and compared (drift).
(b) clean session scripts run against the helper's simulated acceptor and against a real
    acceptor endpoint; TLC compares the initiator's frames, states and counters."""
import itertools
import json
import os
import random
from math import nan

from ..core import Outcome
from ..par import pmap
from .. import tlc, fixdict
from . import c17


def tree_of(c):
    out = []
    for t, v in c.tags.items():
        if c.is_group(t):
            out.append({"k": "g", "tag": str(t), "items": [tree_of(g) for g in c.get_group_list(t)]})
        else:
            out.append({"k": "f", "tag": str(t), "val": str(v)})
    return out


def execute(spec):
    import sys
    if __import__("harness").REPO not in sys.path:
        sys.path.insert(0, __import__("harness").REPO)
    from asyncfix import FIXMessage, FMsg, FTag
    from asyncfix.fix_tester import FIXTester
    from asyncfix.protocol.order_single import FIXNewOrderSingle
    from asyncfix.protocol.common import FOrdStatus, FExecType
    root, unit, qty0 = spec["root"], spec["unit"], spec["qty0"]
    rng = random.Random(spec["seed"])

    def rid(mid):
        return root + mid[1:] if mid else mid

    def u(x):
        try:
            return int(round(float(x) / unit))
        except Exception:
            return -999

    ft = FIXTester(schema=None)
    o = FIXNewOrderSingle(root, "TICK", "1", 10.0, qty0 * unit)
    steps = []
    last_req = None

    def ordattrs():
        return {"st": str(o.status.value if isinstance(o.status, FOrdStatus) else o.status), "clord": str(o.clord_id), "orig": str(o.orig_clord_id or ""),
                "qty": u(o.qty), "cum": u(o.cum_qty), "leaves": u(o.leaves_qty), "px": u(o.price * unit)}

    def fabricate(a, clord, orig, process):
        """a in units with -1 = not given"""
        st = {"kind": "report", "ord": ordattrs(), "a": a, "refused": False, "tree": [], "r": {"cum": 0, "leaves": 0, "qty": 0, "os": a["os"]},
              "execid": "", "orderid": "", "processed": "skipped"}
        g = lambda k: nan if a[k] == -1 else a[k] * unit
        msg = None
        try:
            msg = ft.fix_exec_report_msg(o, clord, FExecType(a["et"]), FOrdStatus(a["os"]), cum_qty=g("cum"), leaves_qty=g("leaves"), last_qty=g("last"),
                                         price=(nan if a["px"] == -1 else float(a["px"])), order_qty=g("qty"), orig_clord_id=orig or None)
        except AssertionError:
            st["refused"] = True
        except Exception as ex:
            st["refused"] = True
            st["processed"] = "exc:helper:" + type(ex).__name__
        if msg is not None:
            st["tree"] = tree_of(msg)
            st["r"] = {"cum": u(msg[FTag.CumQty]), "leaves": u(msg[FTag.LeavesQty]), "qty": u(msg[FTag.OrderQty]), "os": str(msg[FTag.OrdStatus])}
            st["execid"] = str(msg[FTag.ExecID])
            st["orderid"] = str(msg[FTag.OrderID])
            if process:
                try:
                    o.process_execution_report(msg)
                    st["processed"] = "none"
                except Exception as ex:
                    st["processed"] = "exc:" + type(ex).__name__
        steps.append(st)
        return msg

    for ev in spec["evs"]:
        a = ev["a"]
        try:
            if a == "c_new":
                last_req = o.new_req()
                ft.order_register_single(o)
                # reports fabricated before the order has processed any of them (e.g. PendingNew and Ack prepared together)
                for et, os_ in (("A", "A"), ("0", "0")):
                    fabricate({"et": et, "os": os_, "cum": -1, "leaves": -1, "last": -1, "px": -1, "qty": -1}, str(o.clord_id), "", False)
                # an order filled at once: the first report of all is a (partial) fill
                q0 = u(o.qty)
                fabricate({"et": "F", "os": "2", "cum": q0, "leaves": 0, "last": q0, "px": -1, "qty": -1}, str(o.clord_id), "", False)
                if q0 > 1:
                    fabricate({"et": "F", "os": "1", "cum": 1, "leaves": q0 - 1, "last": 1, "px": -1, "qty": -1}, str(o.clord_id), "", False)
            elif a == "c_cancel":
                last_req = ft.fix_cxl_request(o)
            elif a == "c_replace":
                last_req = ft.fix_rep_request(o, price=float(o.price) + ev["dp"], qty=float(o.qty) + ev["dq"] * unit)
            elif a == "c_recv":
                m = ev["m"]
                if m["t"] == "er":
                    args = {"et": m["et"], "os": m["os"], "cum": m["cum"], "leaves": m["leaves"],
                            "last": (m["cum"] - u(o.cum_qty)) if m["et"] == "F" else -1,
                            "px": m["px"] if m["et"] == "5" else -1, "qty": m["qty"] if m["et"] == "5" else -1}
                    msg = fabricate(args, rid(m["clord"]), rid(m["orig"]), True)
                    if msg is None:      # the helper refused these arguments: deliver the model's report anyway so the history continues
                        f = FIXMessage(FMsg.EXECUTIONREPORT, {FTag.ClOrdID: rid(m["clord"]), FTag.OrderID: "X1", FTag.ExecID: "M%d" % len(steps),
                                                               FTag.ExecType: m["et"], FTag.OrdStatus: m["os"], FTag.CumQty: m["cum"] * unit,
                                                               FTag.LeavesQty: m["leaves"] * unit, FTag.AvgPx: 0, FTag.OrderQty: m["qty"] * unit, FTag.Price: m["px"]})
                        try:
                            o.process_execution_report(f)
                        except Exception:
                            pass
                    # a grid of further argument combinations at this state (fabricated, not processed)
                    for _ in range(spec.get("grid", 3)):
                        et = rng.choice(["0", "4", "5", "6", "8", "9", "A", "C", "E", "F", "I", "3", "D"])
                        os_ = rng.choice(["0", "1", "2", "4", "6", "8", "9", "A", "C", "E", "3", "7"])
                        cum = rng.choice([-1, 0, u(o.cum_qty), u(o.cum_qty) + 1, u(o.qty)])
                        lv = rng.choice([-1, 0, 1, max(0, u(o.qty) - max(cum, 0))])
                        g = {"et": et, "os": os_, "cum": cum, "leaves": lv, "last": rng.choice([-1, -1, 1, max(cum, 0) - u(o.cum_qty)]),
                             "px": rng.choice([-1, -1, 11]), "qty": rng.choice([-1, -1, u(o.qty) + 1])}
                        fabricate(g, str(o.clord_id), "", False)
                else:
                    st = {"kind": "reject", "tree": [], "processed": "none"}
                    try:
                        msg = ft.fix_cxlrep_reject_msg(last_req, FOrdStatus(m["os"]))
                        st["tree"] = tree_of(msg)
                        o.process_cancel_rej_report(msg)
                    except Exception as ex:
                        st["processed"] = "exc:" + type(ex).__name__
                    steps.append(st)
        except Exception as ex:
            steps.append({"kind": "reject", "tree": [], "processed": "exc:driver:" + type(ex).__name__ + ":" + str(ex)[:80]})
    return {"id": spec["id"], "steps": steps}


def session_factories(_):
    import sys
    if __import__("harness").REPO not in sys.path:
        sys.path.insert(0, __import__("harness").REPO)
    from asyncfix.fix_tester import FIXTester
    ft = FIXTester(schema=None)
    steps = []
    for mt, m in [("A", ft.msg_logon()), ("A", ft.msg_logon({108: 5})), ("5", ft.msg_logout()), ("0", ft.msg_heartbeat()), ("0", ft.msg_heartbeat("T1")),
                  ("0", ft.msg_heartbeat(77)), ("1", ft.msg_test_request("T2")), ("1", ft.msg_test_request(5)), ("4", ft.msg_sequence_reset(3, 7)),
                  ("4", ft.msg_sequence_reset(3, 7, True)), ("2", ft.msg_resend_request(1)), ("2", ft.msg_resend_request(2, 5))]:
        steps.append({"kind": "session", "mt": mt, "tree": tree_of(m)})
    return {"id": "session_factories", "steps": steps}


# ---------------------------------------------------------------- part (b)
ACTS = ["I_APP", "A_APP", "A_TR", "A_HB", "I_HB"]


def _proj(conn, wrote, deliv):
    from ..net import abs_frames
    fr = [{"kind": f["kind"], "seq": f["seq"], "pd": f["pd"], "trid": f["trid"], "pay": f["pay"], "text": bool(f["text"])} for f in abs_frames(wrote)]
    s = conn._session
    return {"wrote": fr, "deliv": list(deliv), "cs": conn.connection_state.name, "nin": s.next_num_in, "nout": s.next_num_out}


def script_pair(spec):
    """run one clean script against FIXTester's simulated acceptor and against a real acceptor endpoint"""
    from ..net import (VLoop, install_clock, RecConn, Endpoint, FIXMessage, FMsg, FTag, Journaler, ConnectionState)
    from asyncfix.fix_tester import FIXTester
    script = spec["script"]
    nin0, nout0 = spec.get("start", (1, 1))     # counters the initiator's journal holds from earlier connections

    def jrn(sender, target, nin, nout):
        j = Journaler()
        if (nin, nout) != (1, 1):
            j.set_seq_num(j.create_or_load(target, sender), next_num_out=nout, next_num_in=nin)
        return j

    def app(tag):
        return FIXMessage(FMsg.NEWORDERSINGLE, {FTag.ClOrdID: tag})

    # --- (1) helper's acceptor
    loop = VLoop(); install_clock(loop)
    ep = Endpoint(loop, "INIT", "ACC", journaler=jrn("INIT", "ACC", nin0, nout0))
    conn = ep.conn
    conn._connection_state = ConnectionState.NETWORK_CONN_ESTABLISHED
    ft = FIXTester(schema=None, connection=conn)
    sent = []
    orig_write = conn._socket_writer.write.side_effect

    def cap(data):
        sent.append(bytes(data))
        return orig_write(data)
    conn._socket_writer.write.side_effect = cap
    a = []

    def step1(coro_fns):
        n0 = len(sent)
        conn.deliv = []
        for fn in coro_fns:
            ok, r = loop.run_coro(fn())
        a.append(_proj(conn, sent[n0:], conn.deliv))
    try:
        step1([lambda: conn.send_msg(ft.msg_logon()), lambda: ft.process_msg_acceptor()])
        k = 0
        for act in script:
            k += 1
            if act == "I_APP":
                step1([lambda: conn.send_msg(app("i%d" % k)), lambda: ft.process_msg_acceptor()])
            elif act == "A_APP":
                step1([lambda: ft.reply(app("a%d" % k))])
            elif act == "A_TR":
                step1([lambda: ft.reply(ft.msg_test_request(777)), lambda: ft.process_msg_acceptor()])
            elif act == "A_HB":
                step1([lambda: ft.reply(ft.msg_heartbeat())])
            elif act == "I_HB":
                step1([lambda: conn.send_msg(ft.msg_heartbeat()), lambda: ft.process_msg_acceptor()])
    except Exception as ex:
        a.append({"error": type(ex).__name__ + ":" + str(ex)[:80]})
    finally:
        loop.shutdown()
    # --- (2) real acceptor endpoint over the fake link
    loop = VLoop(); install_clock(loop)
    chan = {"IA": [], "AI": []}
    I = Endpoint(loop, "INIT", "ACC", sink=lambda b: chan["IA"].append(b), journaler=jrn("INIT", "ACC", nin0, nout0))
    A = Endpoint(loop, "ACC", "INIT", sink=lambda b: chan["AI"].append(b), journaler=jrn("ACC", "INIT", nout0, nin0))
    b = []

    def pump():
        for _ in range(50):
            if not chan["IA"] and not chan["AI"]:
                break
            if chan["IA"]:
                A.feed(chan["IA"].pop(0))
            if chan["AI"]:
                I.feed(chan["AI"].pop(0))

    def step2(fn):
        n0 = len(I.sent)
        I.conn.deliv = []
        fn()
        pump()
        b.append(_proj(I.conn, I.sent[n0:], I.conn.deliv))
    try:
        I.attach(); A.attach(); loop.advance(1.0)
        step2(lambda: I.send(FIXMessage(FMsg.LOGON, {FTag.EncryptMethod: "0", FTag.HeartBtInt: "30"})))
        k = 0
        for act in script:
            k += 1
            if act == "I_APP":
                step2(lambda: I.send(app("i%d" % k)))
            elif act == "A_APP":
                step2(lambda: A.send(app("a%d" % k)))
            elif act == "A_TR":
                def tr():
                    A.conn._test_req_id = 777
                    A.send(FIXMessage(FMsg.TESTREQUEST, {FTag.TestReqID: "777"}))
                step2(tr)
            elif act == "A_HB":
                step2(lambda: A.send(FIXMessage(FMsg.HEARTBEAT)))
            elif act == "I_HB":
                step2(lambda: I.send(FIXMessage(FMsg.HEARTBEAT)))
    except Exception as ex:
        b.append({"error": type(ex).__name__ + ":" + str(ex)[:80]})
    finally:
        loop.shutdown()
    return {"id": spec["id"], "steps": [{"kind": "accept", "a": a, "b": b}]}


def multi_case(spec):
    """several orders on ONE helper; script of ("reg"|"rep"|"cxl", order index)"""
    import sys
    if __import__("harness").REPO not in sys.path:
        sys.path.insert(0, __import__("harness").REPO)
    from asyncfix.fix_tester import FIXTester
    from asyncfix.protocol.order_single import FIXNewOrderSingle
    from asyncfix.protocol.common import FOrdStatus, FExecType
    from asyncfix import FTag
    ft = FIXTester(schema=None)
    orders, nrep, steps = {}, {}, []
    err = ""
    try:
        for act, i in spec["script"]:
            if act == "reg":
                o = FIXNewOrderSingle("m%d" % i, "TICK", "1", 10.0, 10.0)
                o.new_req()
                ft.order_register_single(o)
                orders[i], nrep[i] = o, 0
                continue
            o = orders[i]
            if act == "cxl":
                if o.can_cancel():
                    ft.fix_cxl_request(o)
                continue
            k = nrep[i]
            nrep[i] += 1
            if o.status == FOrdStatus.PENDING_CANCEL:
                continue
            if k == 0:
                msg = ft.fix_exec_report_msg(o, o.clord_id, FExecType.PENDING_NEW, FOrdStatus.PENDING_NEW)
            elif k == 1:
                msg = ft.fix_exec_report_msg(o, o.clord_id, FExecType.NEW, FOrdStatus.NEW)
            else:
                cum = o.cum_qty + 1
                msg = ft.fix_exec_report_msg(o, o.clord_id, FExecType.TRADE, FOrdStatus.PARTIALLY_FILLED if cum < 10 else FOrdStatus.FILLED,
                                             cum_qty=cum, leaves_qty=10 - cum, last_qty=1)
            o.process_execution_report(msg)
            steps.append({"o": i, "orderid": str(msg[FTag.OrderID]), "execid": str(msg[FTag.ExecID])})
    except Exception as ex:
        err = type(ex).__name__ + ":" + str(ex)[:80]
    return {"id": spec["id"], "multi": True, "steps": steps, "harness_error": err}


def multi_scripts(maxlen):
    acts = [(a, i) for i in (0, 1) for a in ("reg", "rep", "cxl")]
    out = []
    for L in range(2, maxlen + 1):
        for s in itertools.product(acts, repeat=L):
            reg = set()
            ok = True
            for a, i in s:
                if a == "reg":
                    if i in reg:
                        ok = False
                        break
                    reg.add(i)
                elif i not in reg:
                    ok = False
                    break
            if ok and len(reg) == 2 and sum(1 for a, _ in s if a == "rep") >= 2:
                out.append(list(s))
    return out


def run(ctx):
    out = Outcome()
    q = ctx.quick
    d = fixdict.translate(__import__("harness").REPO + "/tests/FIX44.xml")
    df = os.path.join(ctx.sub("dict"), "FIX44.json")
    with open(df, "w") as fh:
        json.dump(d, fh)
    r = tlc.model_check(ctx.sub("mc"), "OrderLife", c17.cfg(2, 2, 6, dump=False), timeout=1800, heap="8g")
    out.add_tlc(r)
    dmp = tlc.dump_edges(ctx.sub("dump"), "OrderLife", c17.cfg(2, 1, 4, dump=True, inv=False), marker="STATE", timeout=1800)
    beh = c17.maximal(dmp["edges"])
    sim = tlc.simulate(ctx.sub("sim"), "OrderLife", c17.cfg(3, 4, 14, dump=True, inv=False), num=400 if q else 5000, depth=40, seed=ctx.seed + 20, marker="STATE", timeout=1200)
    simb = c17.maximal(sim["items"])
    rng = random.Random(ctx.seed * 47 + 20)
    if q and len(beh) > 500:
        beh = rng.sample(beh, 500)
    specs = [{"id": "o%d" % i, "evs": h, "qty0": 2 if i < len(beh) else 3, "root": rng.choice(["r", "ord1", "a--b", "book--3--leg"]), "unit": rng.choice([1, 10, 100]),
              "seed": rng.randint(0, 10 ** 6), "grid": 3 if q else 8} for i, h in enumerate(beh + simb)]
    ctx.log("(a) %d order histories (reachable order states of OrderLife) x helper-fabricated reports + argument grid" % len(specs))
    recs = pmap(execute, specs) + [session_factories(None)]
    scripts = [list(s) for L in range(0, (3 if q else 4) + 1) for s in itertools.product(ACTS, repeat=L)]
    ctx.log("(b) %d clean session scripts against the helper's acceptor and a real acceptor" % len(scripts))
    # the same scripts on a session that has a past: the initiator's journal holds unequal counters from earlier connections
    # (the real acceptor's journal holds the mirrored pair)
    sspecs = [{"id": "s%d" % i, "script": s} for i, s in enumerate(scripts)]
    sspecs += [{"id": "s%d.%d_%d" % (i, a, b), "script": s, "start": (a, b)}
               for i, s in enumerate(scripts) if len(s) <= (2 if q else 3) for a, b in ((4, 5), (9, 3), (7, 7))]
    recs += pmap(script_pair, sspecs)
    ms = multi_scripts(5 if q else 6)
    mspecs = [{"id": "m%d" % i, "script": s2} for i, s2 in enumerate(ms)]
    ctx.log("(c) %d interleavings of two orders registered with one helper" % len(ms))
    mrecs = pmap(multi_case, mspecs)
    for mr in mrecs:
        if mr["harness_error"]:
            raise tlc.MachineryError("multi-order script failed in the harness: %s %s" % (mr["id"], mr["harness_error"]))
    recs += mrecs
    verd = tlc.evaluate(ctx.sub("eval"), "TesterEval", recs, shard_size=max(20, len(recs) // 16 + 1), jobs=16, env={"DICT_FILE": df}, timeout=2400, heap="4g")
    allin = specs + [{"id": "session_factories"}] + sspecs + mspecs
    for rec, v, sp in zip(recs, verd, allin):
        out.traces += 1
        out.clause_hits["fabricated_messages_judged"] = out.clause_hits.get("fabricated_messages_judged", 0) + v["n"]
        if v["drift"]:
            out.drift += len(v["drift"])
            if len(out.drift_samples) < 5:
                i = v["drift"][0]
                st = rec["steps"][i - 1]
                out.drift_samples.append({"trace": rec["id"], "ord": st["ord"], "a": st["a"], "helper_refused": st["refused"]})
        if not v["fails"] and not v["drift"]:
            out.traces_ok += 1
        seen = set()
        for f in v["fails"]:
            if f["clause"] in seen:
                continue
            seen.add(f["clause"])
            st = rec["steps"][f["step"] - 1]
            det = {k: st.get(k) for k in ("kind", "ord", "a", "r", "execid", "orderid", "processed", "mt") if k in st}
            if rec.get("multi"):
                det = {"script": sp["script"], "reports": rec["steps"]}
            elif st["kind"] == "accept":
                diff = [i for i, (x, y) in enumerate(zip(st["a"], st["b"])) if x != y]
                det = {"script": sp.get("script"), "first_difference_at_step": diff[:1], "helper": st["a"][diff[0]] if diff else st["a"][-1:], "real": st["b"][diff[0]] if diff else st["b"][-1:]}
            out.failures.append({"clause": f["clause"], "triggers": [], "input": sp, "detail": det, "trace": None})
    out.samples = [{"id": recs[0]["id"], "steps": len(recs[0]["steps"])}, {"script": scripts[-1]}]
    out.exhaustive = True
    out.extra.update({"order_histories": len(specs), "session_scripts": len(sspecs)})
    out.assumptions = ["FIXTester is used without a schema: validity is decided by the TLA+ oracle over the independently translated FIX44 dictionary",
                       "clean scripts = atomic exchanges (each send is delivered before the next), as the helper's acceptor has no in-flight queue towards the initiator"]
    return out


def replay(ctx, inp):
    out = Outcome()
    d = fixdict.translate(__import__("harness").REPO + "/tests/FIX44.xml")
    df = os.path.join(ctx.sub("dict"), "FIX44.json")
    with open(df, "w") as fh:
        json.dump(d, fh)
    rec = multi_case(inp) if str(inp.get("id", "")).startswith("m") else script_pair(inp) if "script" in inp else (session_factories(None) if inp.get("id") == "session_factories" else execute(inp))
    verd = tlc.evaluate(ctx.sub("eval"), "TesterEval", [rec], env={"DICT_FILE": df})
    out.traces = 1
    for f in verd[0]["fails"]:
        out.failures.append({"clause": f["clause"], "triggers": [], "input": inp, "detail": {"step": f["step"]}, "trace": None})
    if not verd[0]["fails"]:
        out.traces_ok = 1
    out.states = out.transitions = 1
    out.samples = [rec["id"]]
    return out
