"""C18 - message containers behave as ordered tag maps with strict duplicate rules.

Spec: spec/Container.tla (reference model: every public method as ApplyOp), spec/ContainerMC.tla
(bounded exploration, order/duplicate laws), spec/ContainerEval.tla (refinement check of the
real FIXMessage: results and content after every operation)."""
import pickle
import random

from ..core import Outcome
from ..par import pmap
from .. import tlc

TAGS = ["1", "2", "78"]


def mc_cfg(depth, dump, props=True):
    s = "SPECIFICATION Spec\nCONSTANTS\n MaxLen = 3\n Depth = %d\n Dump = %s\nVIEW View\nCONSTRAINT Bound\n" % (depth, "TRUE" if dump else "FALSE")
    if props:
        s += "INVARIANT Inv_UniqueTags\nPROPERTY A_Order\nPROPERTY A_Refused\n"
    if dump:
        s += "INVARIANT Inv_DumpState\n"
    return s + "CHECK_DEADLOCK FALSE\n"


def item(v):
    return [{"tag": "79", "k": "f", "val": v, "items": []}]


def battery(conts):
    ops = []
    for t in TAGS + ["9999"]:
        for sp in ("int", "str", "enum"):
            if sp == "enum" and t == "9999":
                continue
            ops.append({"op": "get", "tag": t, "sp": sp, "dflt": "none"})
            ops.append({"op": "contains", "tag": t, "sp": sp})
        ops.append({"op": "get", "tag": t, "sp": "int", "dflt": "d"})
        ops.append({"op": "glist", "tag": t})
        for i in (0, 1, 2, 7):
            ops.append({"op": "gindex", "tag": t, "index": i})
        ops.append({"op": "gtag", "tag": t, "gtag": "79", "gval": "y"})
        if t in ("78", "2"):
            ops.append({"op": "gtag", "tag": t, "gtag": "80", "gval": "q"})
            ops.append({"op": "gtag", "tag": t, "gtag": "80", "gval": "nope"})
            ops.append({"op": "gtag", "tag": t, "gtag": "81", "gval": "q"})
    ops.append({"op": "pickle"})
    ops.append({"op": "eqc", "other": "SELF"})
    ops.append({"op": "eqc", "other": [{"tag": "1", "k": "f", "val": "a|2=b", "items": []}]})
    ops.append({"op": "eqc", "other": [{"tag": "1", "k": "f", "val": "a", "items": []}, {"tag": "2", "k": "f", "val": "b", "items": []}]})
    ops.append({"op": "eqd", "pairs": "SELF"})
    ops.append({"op": "eqd", "pairs": "SELF+FRAMING"})
    ops.append({"op": "eqd", "pairs": "SELF+FRAMING", "keys": "int"})
    ops.append({"op": "eqd", "pairs": "SELF", "keys": "int"})
    ops.append({"op": "eqd", "pairs": "SELF+FRAMING", "keys": "enum"})
    ops.append({"op": "eqd", "pairs": [["1", "a"], ["35", "D"], ["9", "12"]], "keys": "int"})
    ops.append({"op": "eqd", "pairs": [["1", "a"]]})
    ops.append({"op": "eqd", "pairs": [["1", "a"], ["2", "b"]]})
    ops.append({"op": "eqd", "pairs": [["1", "a"], ["8", "FIX.4.4"], ["35", "D"]]})
    return ops


def project(c):
    out = []
    for t, v in c.tags.items():
        if c.is_group(t):
            out.append({"tag": str(t), "k": "g", "val": "", "items": [project(g) for g in c.get_group_list(t)]})
        else:
            out.append({"tag": str(t), "k": "f", "val": v if isinstance(v, str) else "#class#", "items": []})
    return out


def build(entries):
    from asyncfix.message import FIXContainer
    c = FIXContainer()
    for e in entries:
        if e["k"] == "f":
            c.set(e["tag"], e["val"])
        else:
            c.set_group(e["tag"], [build(i) for i in e["items"]])
    return c


def execute(tr):
    import sys
    if __import__("harness").REPO not in sys.path:
        sys.path.insert(0, __import__("harness").REPO)
    from asyncfix import FIXMessage, FMsg, FTag
    m = FIXMessage("D")

    def spell(t, sp):
        return {"int": lambda: int(t), "str": lambda: t, "enum": lambda: FTag(t), "bad_x": lambda: "x", "bad_float": lambda: 1.0,
                "bad_floatstr": lambda: "1.0", "bad_empty": lambda: ""}[sp]()

    def value(o):
        return {"str": lambda: o["sval"], "int": lambda: int(o["sval"]), "float": lambda: float(o["sval"]), "enum": lambda: FMsg(o["sval"]),
                "tagenum": lambda: FTag(o["sval"])}[o.get("vt", "str")]()

    out = []
    for o in tr["ops"]:
        o = dict(o)
        k = o["op"]
        listop = k in ("glist", "gindex", "gtag")
        try:
            if k == "set":
                m.set(spell(o["tag"], o["sp"]), value(o), replace=o["replace"])
                o["res"] = "ok"
            elif k == "del":
                del m[o["tag"]]
                o["res"] = "ok"
            elif k == "get":
                r = m.get(spell(o["tag"], o["sp"])) if o["dflt"] == "none" else m.get(spell(o["tag"], o["sp"]), o["dflt"])
                o["res"] = "val:" + str(r)
            elif k == "contains":
                o["res"] = "true" if spell(o["tag"], o["sp"]) in m else "false"
            elif k == "add_group":
                m.add_group(spell(o["tag"], o["sp"]), {e["tag"]: e["val"] for e in o["item"]}, o["index"])
                o["res"] = "ok"
            elif k == "add_group_bad":
                bad = {"none": None, "int": 5, "str": "x", "badkey": {"x": "1"}, "dupkey": {1: "a", "1": "b"}, "list": [1]}[o["bad"]]
                try:
                    m.add_group(spell(o["tag"], o["sp"]), bad, o["index"])
                    o["res"] = "ok"
                except Exception as ex:
                    from asyncfix.errors import FIXMessageError as _FME
                    o["res"] = "err:refused" if isinstance(ex, _FME) else "err:" + type(ex).__name__
                o["cont"] = project(m)
                out.append(o)
                continue
            elif k == "nested_set":
                try:
                    g = m.get_group_by_index(o["tag"], o["index"])
                except Exception:
                    g = None
                if g is None:
                    o["res"] = "unspecified"
                else:
                    g.set(o["ntag"], o["sval"], replace=True)
                    o["res"] = "ok"
            elif k == "set_group":
                m.set_group(spell(o["tag"], o["sp"]), [{e["tag"]: e["val"] for e in it} for it in o["items"]])
                o["res"] = "ok"
            elif k == "glist":
                o["res"] = {"err": "", "items": [project(g) for g in m.get_group_list(o["tag"])]}
            elif k == "gindex":
                o["res"] = {"err": "", "items": [project(m.get_group_by_index(o["tag"], o["index"]))]}
            elif k == "gtag":
                o["res"] = {"err": "", "items": [project(m.get_group_by_tag(o["tag"], o["gtag"], o["gval"]))]}
            elif k == "eqc":
                if o["other"] == "SELF":
                    o["other"] = project(m)
                o["res"] = "true" if (m == build(o["other"])) else "false"
            elif k == "eqd":
                if o["pairs"] in ("SELF", "SELF+FRAMING"):
                    pr = [[e["tag"], e["val"]] for e in project(m) if e["k"] == "f"]
                    if o["pairs"] == "SELF+FRAMING":
                        pr += [["8", "FIX.4.4"], ["10", "000"]]
                    o["pairs"] = pr
                kt = o.pop("keys", "str")
                keyf = {"str": str, "int": int, "enum": lambda t: FTag(t)}[kt]
                o["res"] = "true" if (m == {keyf(p[0]): p[1] for p in o["pairs"]}) else "false"
            elif k == "pickle":
                m2 = pickle.loads(pickle.dumps(m))
                o["res"] = "true" if (m2 == m and project(m2) == project(m) and m2.msg_type == m.msg_type) else "false"
        except Exception as ex:
            e = type(ex).__name__
            o["res"] = {"err": e, "items": []} if listop else "err:" + e
        o["cont"] = project(m)
        out.append(o)
    return {"id": tr["id"], "ops": out}


def muts(rng=None):
    ops = []
    for t in TAGS:
        for sp in ("int", "str", "enum"):
            for r in (False, True):
                ops.append({"op": "set", "tag": t, "sp": sp, "sval": "a", "vt": "str", "replace": r})
        ops.append({"op": "set", "tag": t, "sp": "int", "sval": "5", "vt": "int", "replace": True})
        ops.append({"op": "set", "tag": t, "sp": "int", "sval": "1.5", "vt": "float", "replace": True})
        ops.append({"op": "set", "tag": t, "sp": "int", "sval": "A", "vt": "enum", "replace": True})
        ops.append({"op": "set", "tag": t, "sp": "int", "sval": "11", "vt": "tagenum", "replace": True})
        ops.append({"op": "del", "tag": t})
    for sp in ("bad_x", "bad_float", "bad_floatstr", "bad_empty"):
        ops.append({"op": "set", "tag": "1", "sp": sp, "sval": "a", "vt": "str", "replace": True})
        ops.append({"op": "add_group", "tag": "78", "sp": sp, "item": item("x"), "index": -1})
        ops.append({"op": "set_group", "tag": "78", "sp": sp, "items": [item("x")]})
    for t in ("78", "2"):
        for i in (-1, 0, 1, 5):
            ops.append({"op": "add_group", "tag": t, "sp": "int", "item": item("y"), "index": i})
    ops.append({"op": "set_group", "tag": "78", "sp": "int", "items": [item("x"), item("y")]})
    ops.append({"op": "set_group", "tag": "2", "sp": "enum", "items": [item("x")]})
    # refused items on an absent tag, on an existing group and on a plain tag: the container must stay as it was
    for t in ("78", "2", "453"):
        for bad in ("none", "int", "str", "badkey", "dupkey", "list"):
            ops.append({"op": "add_group_bad", "tag": t, "sp": "int", "bad": bad, "index": -1})
    # heterogeneous items: the searched member is missing from an earlier item, present in a later one (and vice versa)
    i80 = [{"tag": "80", "k": "f", "val": "q", "items": []}]
    both = [{"tag": "79", "k": "f", "val": "y", "items": []}, {"tag": "80", "k": "f", "val": "q", "items": []}]
    ops.append({"op": "set_group", "tag": "78", "sp": "int", "items": [item("x"), i80, item("y")]})
    ops.append({"op": "set_group", "tag": "78", "sp": "int", "items": [i80, both]})
    ops.append({"op": "set_group", "tag": "78", "sp": "int", "items": [item("y"), i80]})
    ops.append({"op": "add_group", "tag": "78", "sp": "int", "item": i80, "index": 0})
    ops.append({"op": "add_group", "tag": "78", "sp": "int", "item": i80, "index": -1})
    return ops


def random_trace(rng, tid):
    tags = ["1", "2", "11", "55", "78", "79", "453", "5001", "99999"]
    vals = ["a", "b", "", "a|2=b", "x=y", " ", "é", "0", "long" * 20]
    ops = []
    for _ in range(rng.randint(3, 25)):
        x = rng.random()
        t = rng.choice(tags)
        if x < 0.35:
            vt = rng.choice(["str", "str", "int", "float"])
            sv = rng.choice(vals) if vt == "str" else ("7" if vt == "int" else "2.5")
            ops.append({"op": "set", "tag": t, "sp": rng.choice(["int", "str"]), "sval": sv, "vt": vt, "replace": rng.random() < 0.4})
        elif x < 0.45:
            ops.append({"op": "del", "tag": t})
        elif x < 0.6:
            ops.append({"op": "add_group", "tag": t, "sp": "int", "item": item(rng.choice(vals[:2])), "index": rng.choice([-1, 0, 1, 3])})
        elif x < 0.65:
            ops.append({"op": "set_group", "tag": t, "sp": "str", "items": [rng.choice([item("x"), item("y"), [{"tag": "80", "k": "f", "val": "q", "items": []}]]) for _ in range(rng.randint(1, 3))]})
        elif x < 0.8:
            ops.append({"op": "get", "tag": t, "sp": "int", "dflt": rng.choice(["none", "d"])})
        elif x < 0.9:
            ops.append(rng.choice([{"op": "glist", "tag": t}, {"op": "gindex", "tag": t, "index": rng.randint(0, 3)}, {"op": "contains", "tag": t, "sp": "str"},
                               {"op": "gtag", "tag": t, "gtag": rng.choice(["79", "80"]), "gval": rng.choice(["x", "y", "q"])}]))
        else:
            ops.append(rng.choice([{"op": "pickle"}, {"op": "eqc", "other": "SELF"}, {"op": "eqd", "pairs": "SELF+FRAMING"},
                                   {"op": "eqd", "pairs": "SELF+FRAMING", "keys": "int"}]))
    return {"id": tid, "ops": ops}


def run(ctx):
    out = Outcome()
    q = ctx.quick
    r = tlc.model_check(ctx.sub("mc"), "ContainerMC", mc_cfg(4 if q else 6, False), timeout=3600, heap="8g", workers=1)   # strict BFS: the VIEW hides the depth
    out.add_tlc(r)
    d = tlc.dump_edges(ctx.sub("dump"), "ContainerMC", mc_cfg(2 if q else 3, True, props=False), marker="STATE", timeout=1800)
    paths = d["edges"]
    ctx.log("Container model: %d states, order / duplicate laws hold; replaying %d states x every operation" % (r["distinct"], len(paths)))
    traces = []
    mm = muts()
    for si, p in enumerate(paths):
        traces.append({"id": "s%d" % si, "ops": list(p) + battery(None)})
        for mi, m in enumerate(mm):
            greads = []
            if m["op"] in ("add_group", "set_group", "add_group_bad"):
                gt = m["tag"]
                greads = [{"op": "gindex", "tag": gt, "index": i} for i in (0, 1, 2, 3)] + \
                         [{"op": "gtag", "tag": gt, "gtag": a, "gval": b} for a, b in (("79", "y"), ("79", "x"), ("80", "q"), ("80", "nope"), ("81", "q"))]
            traces.append({"id": "s%d.m%d" % (si, mi), "ops": list(p) + [m] + battery(None)[-9:] + [{"op": "glist", "tag": "78"}, {"op": "get", "tag": "1", "sp": "int", "dflt": "none"}] + greads})
    # equality before and after a change made INSIDE a group item (through the object an accessor returned)
    eq_self = {"op": "eqc", "other": "SELF"}
    for si, p in enumerate(paths):
        for idx in (0, 1):
            for ntag, sv in (("79", "changed"), ("80", "new")):
                traces.append({"id": "s%d.n%d%s" % (si, idx, ntag),
                               "ops": list(p) + [eq_self, {"op": "nested_set", "tag": "78", "index": idx, "ntag": ntag, "sval": sv}, eq_self,
                                                 {"op": "eqd", "pairs": "SELF"}, {"op": "glist", "tag": "78"}, {"op": "pickle"},
                                                 {"op": "nested_set", "tag": "78", "index": idx, "ntag": ntag, "sval": "again"}, eq_self]})
    rng = random.Random(ctx.seed * 37 + 18)
    nr = 600 if q else 10000
    traces += [random_trace(rng, "r%d" % i) for i in range(nr)]
    ctx.log("executing %d operation sequences on real FIXMessage objects" % len(traces))
    recs = pmap(execute, traces)
    verd = tlc.evaluate(ctx.sub("eval"), "ContainerEval", recs, shard_size=max(100, len(recs) // 16 + 1), jobs=16, timeout=2400)
    for rec, v, tr in zip(recs, verd, traces):
        out.traces += 1
        if not v["fails"]:
            out.traces_ok += 1
        seen = set()
        for f in v["fails"]:
            if f["clause"] in seen:
                continue
            seen.add(f["clause"])
            o = rec["ops"][f["step"] - 1]
            out.failures.append({"clause": f["clause"], "triggers": [], "input": tr,
                                 "detail": {"step": f["step"], "op": {k: v2 for k, v2 in o.items() if k != "cont"}, "content_after": o["cont"], "model_expected": f["expected"],
                                            "before": rec["ops"][f["step"] - 2]["cont"] if f["step"] > 1 else []}, "trace": None})
    out.samples = [{"id": r2["id"], "ops": [{k: v2 for k, v2 in o.items() if k != "cont"} for o in r2["ops"][:6]]} for r2 in recs[:1] + recs[-1:]]
    out.exhaustive = True
    out.extra.update({"model_states_replayed": len(paths), "mutators_per_state": len(mm), "random_sequences": nr})
    out.assumptions = ["non-canonical decimal spellings ('01', ' 1', '+1'), deleting a missing tag, add_group on a plain tag, negative indices other than -1, containers with the same content in a different order: unspecified, nothing asserted"]
    return out


def replay(ctx, inp):
    out = Outcome()
    rec = execute(inp)
    verd = tlc.evaluate(ctx.sub("eval"), "ContainerEval", [rec])
    out.traces = 1
    for f in verd[0]["fails"]:
        out.failures.append({"clause": f["clause"], "triggers": [], "input": inp, "detail": {"step": f["step"], "expected": f["expected"]}, "trace": None})
    if not verd[0]["fails"]:
        out.traces_ok = 1
    out.states = out.transitions = 1
    out.samples = [inp["id"]]
    return out
