"""Process-pool helper (fork): deterministic order, 16 workers by default."""
import multiprocessing as mp
import os


def pmap(func, items, procs=None, chunk=None, force=False):
    items = list(items)
    if not items:
        return []
    procs = procs or min(16, os.cpu_count() or 4)
    if (len(items) < 64 and not force) or procs <= 1:
        return [func(x) for x in items]
    chunk = chunk or max(1, min(500, len(items) // (procs * 4)))
    if force:
        chunk = 1
    ctx = mp.get_context("fork")
    with ctx.Pool(procs) as pool:
        return pool.map(func, items, chunksize=chunk)
