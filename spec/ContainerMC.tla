----------------------------- MODULE ContainerMC -----------------------------
(* Bounded exploration of the container model: every reachable container x every mutating
   operation; insertion order and the duplicate rules as invariants / action properties. *)
EXTENDS Container, Json
CONSTANTS MaxLen, Depth, Dump
VARIABLES c, hist
vars == <<c, hist>>
Tags == {"1", "2", "78"}
Item(v) == <<FEnt("79", v)>>
Muts ==
    { [op |-> "set", tag |-> t, sp |-> sp, sval |-> v, vt |-> "str", replace |-> r] : t \in Tags, sp \in {"int", "str"}, v \in {"a", "b"}, r \in BOOLEAN }
    \cup { [op |-> "set", tag |-> "1", sp |-> sp, sval |-> "a", vt |-> "str", replace |-> r] : sp \in {"bad_x", "bad_float"}, r \in BOOLEAN }
    \cup { [op |-> "del", tag |-> t] : t \in Tags }
    \cup { [op |-> "add_group", tag |-> t, sp |-> "int", item |-> Item(v), index |-> i] : t \in {"78", "2"}, v \in {"x", "y"}, i \in {-1, 0, 1, 5} }
    \cup { [op |-> "set_group", tag |-> "78", sp |-> "int", items |-> its] : its \in { <<Item("x")>>, <<Item("x"), Item("y")>> } }
Init == c = <<>> /\ hist = <<>>
Next == /\ Len(hist) < Depth
        /\ \E o \in Muts :
             /\ o.op = "del" => Has(c, o.tag)
             /\ o.op = "add_group" => ~(Has(c, o.tag) /\ ~IsGrp(c, o.tag))
             /\ c' = ApplyOp(c, o).c /\ hist' = Append(hist, o)
Spec == Init /\ [][Next]_vars
Bound == Len(c) <= MaxLen
View == c
Inv_UniqueTags == \A i, j \in DOMAIN c : c[i].tag = c[j].tag => i = j
\* insertion order is preserved by every mutator: the relative order of surviving tags never changes
A_Order == [][\A i, j \in DOMAIN c : (i < j /\ Has(c', c[i].tag) /\ Has(c', c[j].tag)) => Idx(c', c[i].tag) < Idx(c', c[j].tag)]_vars
\* a refused operation leaves the container unchanged
A_Refused == [][LET o == hist'[Len(hist')] IN ApplyOp(c, o).res \notin {"ok"} => c' = c]_vars
Inv_DumpState == Dump => PrintT(<<"STATE", ToJson(hist)>>)
=============================================================================
