--------------------------- MODULE OrderStatusEval ---------------------------
(* C16 on the real FIXNewOrderSingle.change_status over the whole domain: every record is
   one point [st, kind, et, ms, raise, res] with res = "status:<x>" | "none" | "exc:<Class>".
   Laws L1-L5 decide; equality with the transcribed table is conformance (drift). Also the
   derived predicates can_cancel / can_replace / is_finished per status. *)
EXTENDS OrderStatus, Json, IOUtils
Traces == JsonDeserialize(IOEnv.TRACE_FILE)
Fc(n, ok) == IF ok THEN <<>> ELSE <<n>>
Verdict(r) ==
    IF r.t = "point"
    THEN [id |-> r.id, fails |-> LawFails(r.st, r.kind, r.et, r.ms, r.raise, r.res),
          trigs |-> IF Trig_PinnedCancelRejectPendingNew(r.st, r.kind, r.ms) THEN <<"Trig_PinnedCancelRejectPendingNew">> ELSE <<>>,
          drift |-> r.res # Result(r.st, r.kind, r.et, r.ms, r.raise)]
    ELSE \* derived predicates of one status
         [id |-> r.id, trigs |-> <<>>, drift |-> FALSE,
          fails |-> Fc("L5_can_cancel", r.can_cancel = (r.st \in {ORDNEW, PARTFILLED, SUSPENDED}))
                 \o Fc("L5_can_replace", r.can_replace = (r.st \in {ORDNEW, PARTFILLED, SUSPENDED}))
                 \o Fc("L2_is_finished", r.is_finished = (r.st \in Finished))]
ASSUME JsonSerialize(IOEnv.OUT_FILE, [i \in DOMAIN Traces |-> Verdict(Traces[i])])
=============================================================================
