------------------------------- MODULE Net -------------------------------
(***************************************************************************)
(* Two asyncfix endpoints (initiator "I" = AsyncFIXClient, acceptor "A" =  *)
(* AsyncFIXDummyServer) talking over a connection that may break at any    *)
(* frame boundary, plus endpoint restarts.  Each endpoint is an Endpoint   *)
(* record; every step applies one Endpoint operator, so this is the same   *)
(* session logic that Session1 checks against one scripted peer.           *)
(*                                                                         *)
(*  chan[d]   frames in flight in direction d ("IA" / "AI"), FIFO          *)
(*  link      "up" | "down": after a break writes vanish and drain raises  *)
(*  accepted  payloads whose send_msg returned normally, per sender        *)
(*  delivered payloads handed to on_message, per receiver                  *)
(*                                                                         *)
(* Property C07: safety (delivered is always an in-order, duplicate-free   *)
(* sub-history consistent with accepted) and the quiescence clause         *)
(* (link up, nothing in flight, both sockets attached => fully synced).    *)
(* Property C09 adds Restart: T1 (restored counters), T2 (a number is      *)
(* never reused for a different message), T4 (no ResendRequest when        *)
(* nothing was lost).                                                      *)
(***************************************************************************)
EXTENDS Endpoint, Json

CONSTANTS MaxSends, MaxBreaks, MaxRestarts, Depth, Dump
VARIABLES eps, chan, link, accepted, attempts, delivered, nsend, nbreak, nrest, wire, hist, d, clean, sawRR
vars == <<eps, chan, link, accepted, attempts, delivered, nsend, nbreak, nrest, wire, hist, d, clean, sawRR>>

E == {"I", "A"}
Peer(e) == IF e = "I" THEN "A" ELSE "I"
Out(e) == IF e = "I" THEN "IA" ELSE "AI"
In(e) == IF e = "I" THEN "AI" ELSE "IA"
NOWN == 1000000

WithHdr(f) == f @@ [hdr |-> "ok"]
Up(e) == link = "up" /\ eps[e].sock

\* frames a step wrote go into the channel while the writer is up
Emit(e, ep2) == IF Up(e) THEN [chan EXCEPT ![Out(e)] = @ \o ep2.wrote] ELSE chan
\* every non-retransmitted frame ever written, for C09.T2: <<e, seq, identity>>
WireAdd(e, ep2) ==
    wire \cup { <<e, ep2.wrote[i].seq, ep2.wrote[i].kind, ep2.wrote[i].pay, ep2.wrote[i].b>> :
                  i \in { i \in DOMAIN ep2.wrote : ~ep2.wrote[i].pd /\ ep2.wrote[i].kind # "SEQRESET" } }

\* an endpoint that closed its socket: the link is gone, unread input for it is discarded
CloseEffects(e, ep2, ch) ==
    IF eps[e].sock /\ ~ep2.sock THEN [ch EXCEPT ![In(e)] = <<>>] ELSE ch
LinkAfter(e, ep2) == IF eps[e].sock /\ ~ep2.sock THEN "down" ELSE link

Init == /\ eps = [e \in E |-> NewEndpoint(1, 1)]
        /\ chan = [x \in {"IA", "AI"} |-> <<>>] /\ link = "down"
        /\ accepted = [e \in E |-> <<>>] /\ attempts = [e \in E |-> <<>>] /\ delivered = [e \in E |-> <<>>]
        /\ nsend = [e \in E |-> 0] /\ nbreak = 0 /\ nrest = 0 /\ wire = {} /\ hist = <<>> /\ d = 0
        /\ clean = TRUE /\ sawRR = FALSE

Step(ev) == hist' = Append(hist, ev) /\ d' = d + 1

\* client connect() + server accept; the client's on_connect sends Logon
Reconnect ==
    /\ ~eps["I"].sock /\ ~eps["A"].sock
    /\ LET i1 == Attach(Clr(eps["I"]), "INITIATOR")
           a1 == Attach(Clr(eps["A"]), "ACCEPTOR")
           i2 == SendMsg(i1, Frame("LOGON", 0), TRUE)
       IN /\ eps' = [eps EXCEPT !["I"] = i2, !["A"] = a1]
          /\ link' = "up"
          /\ chan' = [IA |-> i2.wrote, AI |-> <<>>]
          /\ wire' = WireAdd("I", i2)
    /\ Step([t |-> "reconnect"])
    /\ UNCHANGED <<accepted, attempts, delivered, nsend, nbreak, nrest, clean, sawRR>>

AppSend(e) ==
    /\ nsend[e] < MaxSends
    /\ LET pay == "11=" \o (IF e = "I" THEN "i" ELSE "a") \o ToString(nsend[e] + 1)
           m == [Frame("APP", 0) EXCEPT !.pay = pay]
           ep2 == SendMsg(Clr(eps[e]), m, Up(e))
       IN /\ eps' = [eps EXCEPT ![e] = ep2]
          /\ chan' = Emit(e, ep2)
          /\ accepted' = IF ep2.exc = "none" THEN [accepted EXCEPT ![e] = Append(@, pay)] ELSE accepted
          /\ attempts' = [attempts EXCEPT ![e] = Append(@, pay)]
          /\ wire' = WireAdd(e, ep2)
          /\ Step([t |-> "send", e |-> e, pay |-> pay])
          /\ clean' = (clean /\ (Up(e) \/ ep2.wrote = <<>>))     \* a frame written into a dead link is lost
    /\ nsend' = [nsend EXCEPT ![e] = @ + 1]
    /\ UNCHANGED <<link, delivered, nbreak, nrest, sawRR>>

\* the head frame of direction dd is read and processed by its receiver
Deliver(dd) ==
    /\ chan[dd] # <<>>
    /\ LET e == IF dd = "IA" THEN "A" ELSE "I"
           f == Head(chan[dd])
           ep2 == IF Disconnected(eps[e].cs) \/ ~eps[e].sock THEN Clr(eps[e])
                  ELSE Swallow(ProcessMessage(Clr(eps[e]), WithHdr(f), NOWN, {}, Up(e)))
           ch1 == [chan EXCEPT ![dd] = Tail(@)]
           ch2 == IF Up(e) THEN [ch1 EXCEPT ![Out(e)] = @ \o ep2.wrote] ELSE ch1
       IN /\ eps' = [eps EXCEPT ![e] = ep2]
          /\ chan' = CloseEffects(e, ep2, ch2)
          /\ link' = LinkAfter(e, ep2)
          /\ delivered' = IF ep2.deliv # <<>> THEN [delivered EXCEPT ![e] = Append(@, f.pay)] ELSE delivered
          /\ wire' = WireAdd(e, ep2)
          /\ clean' = (clean /\ (Up(e) \/ ep2.wrote = <<>>) /\ CloseEffects(e, ep2, ch2) = ch2)
          /\ sawRR' = (sawRR \/ \E i \in DOMAIN ep2.wrote : ep2.wrote[i].kind = "RR")
          /\ Step([t |-> "deliver", dir |-> dd])
    /\ UNCHANGED <<accepted, attempts, nsend, nbreak, nrest>>

\* the connection breaks: keep the first ki / ka in-flight frames (already in the peer's socket buffer)
Break(ki, ka) ==
    /\ link = "up" /\ nbreak < MaxBreaks
    /\ ki \in 0..Len(chan["IA"]) /\ ka \in 0..Len(chan["AI"])
    /\ link' = "down"
    /\ chan' = [IA |-> SubSeq(chan["IA"], 1, ki), AI |-> SubSeq(chan["AI"], 1, ka)]
    /\ nbreak' = nbreak + 1
    /\ clean' = (clean /\ ki = Len(chan["IA"]) /\ ka = Len(chan["AI"]))    \* something in flight is dropped
    /\ Step([t |-> "break", ki |-> ki, ka |-> ka])
    /\ UNCHANGED <<eps, accepted, attempts, delivered, nsend, nrest, wire, sawRR>>

\* endpoint e, having consumed what was left in its socket buffer, sees EOF / reset / error
NoticeEOF(e) ==
    /\ link = "down" /\ eps[e].sock /\ chan[In(e)] = <<>>
    /\ LET ep2 == ReadEOF(Clr(eps[e]), FALSE) IN
       /\ eps' = [eps EXCEPT ![e] = ep2]
    /\ Step([t |-> "eof", e |-> e])
    /\ UNCHANGED <<chan, link, accepted, attempts, delivered, nsend, nbreak, nrest, wire, clean, sawRR>>

\* graceful restart of e at a quiescent point: new connection object over the same journal
Restart(e) ==
    /\ nrest < MaxRestarts
    /\ chan["IA"] = <<>> /\ chan["AI"] = <<>>
    /\ LET old == eps[e]
           fresh == [NewEndpoint(old.sin, old.sout) EXCEPT !.jout = old.jout, !.jin = old.jin, !.role = old.role]
       IN /\ eps' = [eps EXCEPT ![e] = fresh]
          /\ link' = "down"
    /\ nrest' = nrest + 1
    /\ Step([t |-> "restart", e |-> e])
    /\ UNCHANGED <<chan, accepted, attempts, delivered, nsend, nbreak, wire, clean, sawRR>>

Next == /\ d < Depth
        /\ \/ Reconnect
           \/ \E e \in E : AppSend(e)
           \/ \E dd \in {"IA", "AI"} : Deliver(dd)
           \/ \E ki \in 0..3, ka \in 0..3 : Break(ki, ka)
           \/ \E e \in E : NoticeEOF(e)
           \/ \E e \in E : Restart(e)
Spec == Init /\ [][Next]_vars

(* ---- C07 ---- *)
IsPrefixS(a, b) == Len(a) <= Len(b) /\ \A i \in DOMAIN a : a[i] = b[i]
RangeS(s) == { s[i] : i \in DOMAIN s }
Pos(p, s) == CHOOSE i \in DOMAIN s : s[i] = p
OnlyAccepted(dl, acc) == SelectSeq(dl, LAMBDA p : p \in RangeS(acc))
\* In order, exactly once: what e's application received are messages its peer tried to send, in
\* the order of the attempts, none twice; and among them the ones whose send call was accepted
\* form a prefix of the accepted ones (no accepted message is skipped or overtaken).  A message
\* whose send call raised (transport error after it was journaled) may or may not arrive.
Safe == \A e \in E :
          /\ RangeS(delivered[e]) \subseteq RangeS(attempts[Peer(e)])
          /\ \A i, k \in DOMAIN delivered[e] :
                 i < k => Pos(delivered[e][i], attempts[Peer(e)]) < Pos(delivered[e][k], attempts[Peer(e)])
          /\ IsPrefixS(OnlyAccepted(delivered[e], accepted[Peer(e)]), accepted[Peer(e)])
Quiet == link = "up" /\ chan["IA"] = <<>> /\ chan["AI"] = <<>> /\ eps["I"].sock /\ eps["A"].sock
Synced == /\ eps["I"].cs = "ACTIVE" /\ eps["A"].cs = "ACTIVE"
          /\ OnlyAccepted(delivered["A"], accepted["I"]) = accepted["I"]
          /\ OnlyAccepted(delivered["I"], accepted["A"]) = accepted["A"]
          /\ eps["I"].nin = eps["A"].nout /\ eps["A"].nin = eps["I"].nout
Quiescence == Quiet => Synced
\* Neither endpoint gives up a connection by itself: while the link is up, delivering a frame or sending a message never
\* ends with a socket detached (otherwise "quiescent and both ACTIVE" would be reached only by yet another reconnect).
Stays == [][(hist' # hist /\ hist'[Len(hist')].t \in {"deliver", "send"} /\ link = "up" /\ eps["I"].sock /\ eps["A"].sock)
              => (eps'["I"].sock /\ eps'["A"].sock)]_vars

(* ---- C09 ---- *)
\* T1: restored counters equal the live counters of the old object (checked on the Restart step)
T1 == [][\A e \in E : (hist' # hist /\ hist'[Len(hist')].t = "restart" /\ hist'[Len(hist')].e = e) =>
            (eps'[e].nin = eps[e].nin /\ eps'[e].nout = eps[e].nout)]_vars
\* T2: a number is never used for two different new messages by the same endpoint
T2 == \A x, y \in wire : (x[1] = y[1] /\ x[2] = y[2]) => x = y
\* T4: no ResendRequest while nothing has been lost (clean: no in-flight frame dropped, none written into a dead link)
T4 == clean => ~sawRR

Bound == \A e \in E : eps[e].nin <= 14 /\ eps[e].nout <= 14
View == <<[e \in E |-> [eps[e] EXCEPT !.wrote = <<>>, !.deliv = <<>>, !.cb = <<>>, !.exc = "none", !.last = 0]],
          chan, link, accepted, attempts, delivered, nsend, nbreak, nrest, wire, clean, sawRR>>
Inv_DumpState == Dump => PrintT(<<"STATE", ToJson(hist)>>)
=============================================================================
