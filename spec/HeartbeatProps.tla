-------------------------- MODULE HeartbeatProps --------------------------
(***************************************************************************)
(* Property C12 (heartbeat watchdog) as step clauses over observations of  *)
(* one endpoint in virtual time.  Times are integers in units of 1/S s.    *)
(* Monitor history mh:                                                     *)
(*   s       time of the last valid (in-sequence, accepted) inbound frame, *)
(*           or of the moment the session became active                    *)
(*   quiet   no inbound frame at all since s                               *)
(*   trOut   time the outstanding TestRequest was written (-1 = none)      *)
(*   trId    its TestReqID                                                 *)
(*   trSince number of TestRequests written since s                        *)
(*   gapOK   every silence between valid inbound frames so far < H-1 s     *)
(*   ansOK   every TestRequest so far was answered within 2H-2 s           *)
(* "About one interval" / "about three intervals" are made precise with a  *)
(* tolerance of one watchdog period (1 s) on either side; in between both  *)
(* outcomes are accepted.                                                  *)
(***************************************************************************)
EXTENDS Integers, Sequences, FiniteSets, TLC

HDisc(cs) == cs \in {"UNKNOWN", "DISCONNECTED_NOCONN_TODAY", "DISCONNECTED_WCONN_TODAY", "DISCONNECTED_BROKEN_CONN"}
HLogged(cs) == cs \in {"ACTIVE", "RESENDREQ_AWAITING", "RESENDREQ_HANDLING", "RECV_SEQNUM_TOO_HIGH"}
TRs(w) == SelectSeq(w, LAMBDA x : x.kind = "TR")
HBs(w) == SelectSeq(w, LAMBDA x : x.kind = "HB")
HasCb(cb, n) == \E i \in DOMAIN cb : cb[i] = n
ValidIn(pre, ev, post) == ev.t = "frame" /\ ev.f.hdr = "ok" /\ ev.f.seq = pre.nin /\ post.nin = pre.nin + 1
WatchdogStep(ev) == ev.t = "adv"

MH0 == [s |-> -1, quiet |-> TRUE, trOut |-> -1, trId |-> "", trSince |-> 0, gapOK |-> TRUE, ansOK |-> TRUE]

NextMH(mh, pre, ev, out, post, now, H, S) ==
    IF HDisc(post.cs) THEN MH0
    ELSE
    LET started == mh.s = -1 /\ post.cs = "ACTIVE"
        m0 == IF started THEN [mh EXCEPT !.s = now] ELSE mh
        valid == ValidIn(pre, ev, post)
        \* an answer to the outstanding TestRequest
        answered == m0.trOut # -1 /\ ev.t = "frame" /\ ev.f.kind = "HB" /\ ev.f.trid = m0.trId
        \* (an answer that is itself out of sequence does not count as a proper answer)
        m1 == IF answered THEN [m0 EXCEPT !.ansOK = @ /\ ValidIn(pre, ev, post) /\ (now - m0.trOut <= (2 * H - 2) * S),
                                          !.trOut = -1, !.trId = ""] ELSE m0
        m2 == IF valid /\ m1.s # -1
              THEN [m1 EXCEPT !.gapOK = @ /\ (now - m1.s < (H - 1) * S), !.s = now, !.quiet = TRUE, !.trSince = 0]
              ELSE IF ev.t = "frame" THEN [m1 EXCEPT !.quiet = FALSE] ELSE m1
        tr == TRs(out.wrote)
        m3 == IF tr # <<>> THEN [m2 EXCEPT !.trOut = now, !.trId = tr[Len(tr)].trid, !.trSince = @ + Len(tr)] ELSE m2
    IN m3

\* clauses are evaluated AFTER the step, with the history before it (mh) and after it (mh2)
W1a(mh2, post, now, H, S) ==       \* a TestRequest is due after about one interval of silence
    ~(post.cs = "ACTIVE" /\ mh2.s # -1 /\ mh2.quiet /\ now - mh2.s > (H + 1) * S /\ mh2.trSince = 0 /\ mh2.trOut = -1)
W1b(mh2, post, now, H, S) ==       \* a peer that stays silent is dropped within about three intervals
    ~(~HDisc(post.cs) /\ mh2.s # -1 /\ mh2.quiet /\ now - mh2.s > (3 * H + 3) * S)
W1c(mh, ev, out, now, H, S) ==     \* ... and not probed before about one interval has passed
    (WatchdogStep(ev) /\ TRs(out.wrote) # <<>> /\ mh.s # -1) => now - mh.s >= (H - 1) * S
W2(mh, pre, ev, out, post, now, H, S) ==   \* a live peer is never disconnected by the watchdog
    (WatchdogStep(ev) /\ ~HDisc(pre.cs) /\ HDisc(post.cs) /\ mh.s # -1) =>
        LET live1 == mh.gapOK /\ now - mh.s < (H - 1) * S
            live2 == mh.ansOK /\ mh.trSince > 0 /\ (mh.trOut = -1 \/ now - mh.trOut < (2 * H - 2) * S)
        IN ~(live1 \/ live2)
W3(pre, ev, out, post) ==          \* every inbound TestRequest is answered by one Heartbeat with its id
    (ev.t = "frame" /\ ev.f.kind = "TR" /\ ev.f.hdr = "ok" /\ HLogged(pre.cs) /\ ev.f.seq >= pre.nin /\ ~HDisc(post.cs)) =>
        LET hb == HBs(out.wrote) IN Len(hb) = 1 /\ hb[1].trid = ev.f.trid
W4(mh, ev, out) ==                 \* at most one TestRequest outstanding
    LET tr == TRs(out.wrote)
        stillOut == mh.trOut # -1 /\ ~(ev.t = "frame" /\ ev.f.kind = "HB" /\ ev.f.trid = mh.trId)
    IN Len(tr) <= 1 /\ (stillOut => tr = <<>>)
W5(mh, pre, ev, out, post) ==      \* a Heartbeat echoing a wrong TestReqID ends the session with a Logout
    (ev.t = "frame" /\ ev.f.kind = "HB" /\ ev.f.hdr = "ok" /\ ev.f.seq >= pre.nin /\ HLogged(pre.cs)
       /\ mh.trOut # -1 /\ ev.f.trid # "" /\ ev.f.trid # mh.trId) =>
        /\ HDisc(post.cs)
        /\ \E i \in DOMAIN out.wrote : out.wrote[i].kind = "LOGOUT" /\ out.wrote[i].text
=============================================================================
