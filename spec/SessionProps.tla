--------------------------- MODULE SessionProps ---------------------------
(***************************************************************************)
(* The session-layer properties C04, C05, C11 (and the C06 reply clauses)  *)
(* as step predicates over observations (pre, ev, out, post) of ONE        *)
(* endpoint, plus the small history state the clauses need.  The same      *)
(* operators are evaluated by TLC on the transitions of the design model   *)
(* (Session1.tla) and on recorded executions of the real code              *)
(* (SessionEval.tla).                                                      *)
(*                                                                         *)
(*  pre/post : [cs, role, nin, nout, maxr, treq, sin, sout, jout, jin, buf] *)
(*  ev       : [t |-> "frame", f |-> frame with hdr] | [t |-> "send", m]   *)
(*             | [t |-> "eof"] | [t |-> "tick"] | [t |-> "attach"]         *)
(*  out      : [wrote (frames), deliv (numbers), cb (callback names), exc] *)
(***************************************************************************)
EXTENDS Integers, Sequences, FiniteSets, TLC

LOCAL AWAITS == "RESENDREQ_AWAITING"
PLoggedOn(cs) == cs \in {"ACTIVE", "RESENDREQ_AWAITING", "RESENDREQ_HANDLING", "RECV_SEQNUM_TOO_HIGH"}
PDisconnected(cs) == cs \in {"UNKNOWN", "DISCONNECTED_NOCONN_TODAY", "DISCONNECTED_WCONN_TODAY", "DISCONNECTED_BROKEN_CONN"}
PBelowNet(cs) == PDisconnected(cs) \/ cs \in {"AWAITING_CONNECTION", "INITIATE_CONNECTION"}

IsFrame(ev) == ev.t = "frame"
GoodHdr(ev) == ev.f.hdr = "ok"
Sel(s, P(_)) == SelectSeq(s, P)
RRs(w) == SelectSeq(w, LAMBDA x : x.kind = "RR")
NewFrames(w) == SelectSeq(w, LAMBDA x : ~x.pd /\ x.kind # "SEQRESET")
IsResetMode(f) == f.kind = "SEQRESET" /\ ~f.gf
Count(s, x) == Cardinality({ i \in DOMAIN s : s[i] = x })

(* =========================== C04 =========================================== *)
C04_Applies(pre, ev) == IsFrame(ev) /\ GoodHdr(ev) /\ PLoggedOn(pre.cs)

D1(pre, ev, out, post) ==
    out.deliv # <<>> => ev.f.kind = "APP" /\ ev.f.seq = pre.nin /\ out.deliv = <<ev.f.seq>>
D2(pre, ev, out, post) ==
    \/ post.nin = pre.nin
    \/ post.nin = pre.nin + 1 /\ ev.f.seq = pre.nin
    \/ /\ ev.f.kind = "SEQRESET" /\ post.nin = ev.f.newseq /\ ev.f.newseq > pre.nin
       /\ (ev.f.gf => ev.f.seq = pre.nin)
\* gap = number whose arrival closes the pending ResendRequest (0 = none pending); monitor-side history
D3(pre, ev, out, post, gap) ==
    LET rr == RRs(out.wrote)
        grey == IsResetMode(ev.f) \/ ev.f.kind \in {"LOGOUT", "LOGON"} \/ PDisconnected(post.cs)
    IN IF grey THEN TRUE
       ELSE IF ev.f.seq > pre.nin
            THEN IF gap # 0 THEN rr = <<>> ELSE Len(rr) = 1 /\ rr[1].b = pre.nin /\ rr[1].e = 0
            ELSE rr = <<>>
D4(pre, ev, out, post) == (ev.f.seq > pre.nin /\ ~IsResetMode(ev.f)) => post.nin = pre.nin
\* nothing is silently skipped: when the expected number moves past an application message, that message was delivered
D5(pre, ev, out, post) ==
    (ev.f.kind = "APP" /\ ev.f.seq = pre.nin /\ post.nin = pre.nin + 1) => out.deliv = <<ev.f.seq>>
\* history: delivered numbers strictly increase
DH(out, lastDeliv) == out.deliv # <<>> => out.deliv[1] > lastDeliv

NextGap(pre, ev, out, post, gap) ==
    IF PDisconnected(post.cs) THEN 0
    ELSE LET g1 == IF gap = 0 /\ IsFrame(ev) /\ RRs(out.wrote) # <<>> THEN ev.f.seq ELSE gap
         IN IF g1 # 0 /\ post.nin > g1 THEN 0 ELSE g1

(* =========================== C05 =========================================== *)
JRowSha(j, n) == IF \E i \in DOMAIN j : j[i].seq = n
                 THEN j[CHOOSE i \in DOMAIN j : j[i].seq = n].sha ELSE "missing"
N1(pre, out) == LET nw == NewFrames(out.wrote) IN \A i \in DOMAIN nw : nw[i].seq = pre.nout + i - 1
\* (a send that fails for a reason other than the connection state - text that cannot be
\*  encoded, a transport error - may have consumed its number: nothing is demanded then)
N2(pre, out, post) == out.exc \in {"none", "FIXConnectionError"} => post.nout = pre.nout + Len(NewFrames(out.wrote))
N3(out, post) == LET nw == NewFrames(out.wrote) IN \A i \in DOMAIN nw : JRowSha(post.jout, nw[i].seq) = nw[i].sha
N4(pre, out, post) == NewFrames(out.wrote) # <<>> => post.sout = post.nout
N5(pre, ev, out, post) ==
    (ev.t = "send" /\ out.exc = "FIXConnectionError") =>
        post.nout = pre.nout /\ post.jout = pre.jout /\ post.sout = pre.sout /\ out.wrote = <<>>

(* =========================== C11 =========================================== *)
OnlyLogouts(w) == \A i \in DOMAIN w : w[i].kind = "LOGOUT"
AppCbs(cb) == { i \in DOMAIN cb : cb[i] \in {"message", "logon:ok", "logon:gap", "logout"} }
\* first inbound message other than Logon, before the Logon exchange has completed
G1(pre, ev, out, post) ==
    (IsFrame(ev) /\ GoodHdr(ev) /\ ~PLoggedOn(pre.cs) /\ ~PBelowNet(pre.cs) /\ ev.f.kind # "LOGON") =>
        /\ out.deliv = <<>> /\ post.nin = pre.nin /\ PDisconnected(post.cs) /\ OnlyLogouts(out.wrote)
        /\ \A i \in DOMAIN out.cb : out.cb[i] \notin {"message", "logon:ok", "logon:gap"}
\* sends outside an established session
G2(pre, ev, out, post) ==
    ev.t = "send" =>
        /\ PBelowNet(pre.cs) => out.exc = "FIXConnectionError"
        /\ (pre.cs = "NETWORK_CONN_ESTABLISHED" /\ ev.m.kind \notin {"LOGON", "LOGOUT"}) => out.exc = "FIXConnectionError"
        /\ (pre.cs = "LOGON_INITIAL_SENT" /\ ev.m.kind # "LOGOUT") => out.exc = "FIXConnectionError"
\* integrity defects
TooLow(pre, ev) == ev.f.hdr = "ok" /\ ev.f.seq < pre.nin
BadHdr(ev) == ev.f.hdr \in {"nosender", "notarget", "swapped", "wrongS", "wrongT", "noseq"}
G3(pre, ev, out, post) ==
    (IsFrame(ev) /\ ~PBelowNet(pre.cs) /\ (BadHdr(ev) \/ TooLow(pre, ev))) =>
        LET greyLow == TooLow(pre, ev) /\ (ev.f.kind = "SEQRESET" \/ ev.f.pd)
            mustLogout == ev.f.hdr = "noseq" \/ (TooLow(pre, ev) /\ ~greyLow)
        IN /\ out.deliv = <<>>
           /\ (IsResetMode(ev.f) /\ TooLow(pre, ev)) \/ post.nin = pre.nin
           /\ greyLow \/ PDisconnected(post.cs)
           /\ greyLow \/ out.wrote = <<>> \/ (Len(out.wrote) = 1 /\ out.wrote[1].kind = "LOGOUT" /\ out.wrote[1].text)
           /\ (mustLogout /\ PLoggedOn(pre.cs)) => (Len(out.wrote) = 1 /\ out.wrote[1].kind = "LOGOUT" /\ out.wrote[1].text)
\* wrong BeginString: the decoder discards the frame, nothing happens
G4(pre, ev, out, post) ==
    (IsFrame(ev) /\ ev.f.hdr = "badbs") =>
        /\ out.deliv = <<>> /\ out.wrote = <<>> /\ out.cb = <<>> /\ post.nin = pre.nin /\ post.cs = pre.cs /\ post.buf = 0
\* after a disconnect: silence until the next connect; the disconnect is reported exactly once
G5(pre, ev, out, post) ==
    /\ (PDisconnected(pre.cs) /\ ev.t # "attach") =>
          /\ out.wrote = <<>> /\ out.deliv = <<>> /\ AppCbs(out.cb) = {} /\ Count(out.cb, "disconnect") = 0
    /\ (~PDisconnected(pre.cs) /\ PDisconnected(post.cs)) => Count(out.cb, "disconnect") = 1
    /\ (~PDisconnected(pre.cs) /\ ~PDisconnected(post.cs)) => Count(out.cb, "disconnect") = 0

(* =========================== C06 =========================================== *)
\* Reply to a ResendRequest (b, e) given the outbound journal before the request.
\* r = frames written in response (those that are retransmissions or gap fills).
Lo(w) == w.seq
Hi(w) == IF w.kind = "SEQRESET" THEN w.newseq - 1 ELSE w.seq
ReqLast(pre) == pre.nout - 1
ReqValid(pre, b, e) == b >= 1 /\ b <= ReqLast(pre) /\ (e = 0 \/ e >= b)
ReqHi(pre, e) == IF e = 0 \/ e > ReqLast(pre) THEN ReqLast(pre) ELSE e
SessKinds == {"LOGON", "LOGOUT", "RR", "HB", "TR", "SEQRESET"}
JHasP(j, n) == \E i \in DOMAIN j : j[i].seq = n
JRowP(j, n) == j[CHOOSE i \in DOMAIN j : j[i].seq = n]

\* R1 coverage: contiguous ascending chain from b to the range end
R1(pre, ev, out) ==
    LET r == out.wrote  b == ev.f.b  hi == ReqHi(pre, ev.f.e) IN
    IF ~ReqValid(pre, b, ev.f.e) THEN TRUE
    ELSE /\ r # <<>> /\ Lo(r[1]) = b /\ Hi(r[Len(r)]) = hi
         /\ \A i \in 1..(Len(r) - 1) : Lo(r[i + 1]) = Hi(r[i]) + 1
         /\ \A i \in DOMAIN r : Lo(r[i]) <= Hi(r[i])
\* R2 every journaled application message in range that the filter accepts is retransmitted
R2(pre, ev, out, declined) ==
    ReqValid(pre, ev.f.b, ev.f.e) =>
      \A i \in DOMAIN pre.jout :
         LET row == pre.jout[i] IN
         (row.seq >= ev.f.b /\ row.seq <= ReqHi(pre, ev.f.e) /\ row.kind \notin SessKinds /\ row.pay \notin declined) =>
             \E k \in DOMAIN out.wrote : out.wrote[k].kind = row.kind /\ out.wrote[k].seq = row.seq
\* R3 a retransmission: original number, PossDupFlag, OrigSendingTime = original SendingTime, same body
R3(pre, out) ==
    \A k \in DOMAIN out.wrote :
       LET w == out.wrote[k] IN
       w.kind # "SEQRESET" =>
          /\ w.pd /\ JHasP(pre.jout, w.seq)
          /\ LET row == JRowP(pre.jout, w.seq) IN
             /\ w.pay = row.pay /\ w.kind = row.kind
             /\ w.ost = row.st      \* also when the journaled copy carries an OrigSendingTime of its own
\* R4 session-level messages are never retransmitted; gap fills carry GapFillFlag and move forward
R4(out) ==
    \A k \in DOMAIN out.wrote :
       LET w == out.wrote[k] IN
       IF w.kind = "SEQRESET" THEN w.gf /\ w.newseq > w.seq ELSE w.kind \notin SessKinds
\* R5 no side effects: counters, state and the journal outside the range as before (for an
\* invalid request: the whole journal)
RowsOutside(j, lo, hi) == SelectSeq(j, LAMBDA x : x.seq < lo \/ x.seq > hi)
R5(pre, ev, out, post) ==
    /\ post.nout = pre.nout /\ post.sout = pre.sout
    /\ IF ReqValid(pre, ev.f.b, ev.f.e)
       THEN RowsOutside(post.jout, ev.f.b, ReqHi(pre, ev.f.e)) = RowsOutside(pre.jout, ev.f.b, ReqHi(pre, ev.f.e))
       ELSE post.jout = pre.jout
    /\ \/ post.cs = pre.cs
       \/ pre.cs = "RESENDREQ_AWAITING" /\ post.cs = "ACTIVE" /\ ev.f.seq >= pre.maxr   \* the request itself closed our gap
\* R6 an invalid request is answered with nothing that renumbers (no retransmission, no gap fill)
R6(pre, ev, out) ==
    ~ReqValid(pre, ev.f.b, ev.f.e) =>
        \A k \in DOMAIN out.wrote : out.wrote[k].kind # "SEQRESET" /\ ~out.wrote[k].pd
C06_Applies(pre, ev) ==
    IsFrame(ev) /\ GoodHdr(ev) /\ ev.f.kind = "RR" /\ pre.cs \in {"ACTIVE", "RESENDREQ_AWAITING"} /\ ev.f.seq = pre.nin

(* =========================== known-finding triggers ========================== *)
Trig_BackwardReset(pre, ev) == IsFrame(ev) /\ GoodHdr(ev) /\ IsResetMode(ev.f) /\ ev.f.newseq < pre.nin
=============================================================================
