------------------------------ MODULE Reconnect ------------------------------
(* Behaviours of the client transport life-cycle (ReconnectFn) under an arbitrary environment:
   the server goes down / comes back, connections drop, the application disconnects or calls
   connect() again, seconds pass.  Clauses Q1..Q6 are checked on every step; the hist variable
   (hidden by VIEW) is printed for the replay on the real AsyncFIXClient. *)
EXTENDS ReconnectFn, Json

CONSTANTS H, Horizon, MaxEv, Dump
VARIABLES rc, now, mon, nev, hist, lastout
vars == <<rc, now, mon, nev, hist, lastout>>

Init == rc = Rc0 /\ now = 0 /\ mon = Mon0 /\ nev = 0 /\ hist = <<>> /\ lastout = Out0

Do(ev) == LET r == Step(rc, ev, H) IN
          /\ rc' = r.rc /\ lastout' = r.out
          /\ mon' = NextMon(mon, rc, ev, r.out, r.rc)
          /\ hist' = Append(hist, ev)
Start == rc.poll = -2 /\ Do([t |-> "start", now |-> now]) /\ UNCHANGED <<now, nev>>
Tick == rc.poll # -2 /\ now < Horizon /\ Do([t |-> "tick", now |-> now + 1]) /\ now' = now + 1 /\ UNCHANGED nev
Env == /\ rc.poll # -2 /\ nev < MaxEv
       /\ \/ rc.sock /\ rc.poll = -1 /\ Do([t |-> "drop", now |-> now])
          \/ \E st \in {WCONN, BROKEN} : rc.cs \notin DiscStates /\ Do([t |-> "appdisc", now |-> now, st |-> st])
          \/ Do([t |-> "appconnect", now |-> now])
          \/ rc.up /\ Do([t |-> "down", now |-> now])
          \/ ~rc.up /\ Do([t |-> "up", now |-> now])
       /\ nev' = nev + 1 /\ UNCHANGED now
Next == Start \/ Tick \/ Env
Spec == Init /\ [][Next]_vars

LastEv == hist'[Len(hist')]
A_Q1 == [][Q1(rc, LastEv, lastout')]_vars
A_Q2 == [][Q2(mon, LastEv, lastout', H)]_vars
A_Q3 == [][Q3(mon', LastEv, rc', H)]_vars
A_Q4 == [][Q4(rc, LastEv, lastout', rc')]_vars
A_Q5 == [][Q5(rc, LastEv, lastout', rc')]_vars
A_Q6 == [][Q6(rc, LastEv, lastout', rc')]_vars
\* non-vacuity: the loop does reconnect, and does fail to
NeverReattaches == ~(rc.sock /\ mon.tatt >= 0)
NeverFails == ~(rc.cs = BROKEN /\ mon.tatt >= 0 /\ ~rc.sock /\ mon.tatt > mon.tdet)

View == <<rc, now, mon, nev>>
Inv_DumpState == Dump => PrintT(<<"STATE", ToJson(hist)>>)
=============================================================================
