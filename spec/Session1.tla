----------------------------- MODULE Session1 -----------------------------
(***************************************************************************)
(* One endpoint against an arbitrary (possibly misbehaving) counterparty   *)
(* and an arbitrary application: the environment picks any event of a      *)
(* relative alphabet (frame kind x number relative to the expected one x   *)
(* PossDup x GapFill/NewSeqNo x header defect; any send; EOF; reconnect).  *)
(* Handle(ep, ev) is the step function: apply the event, run the library   *)
(* to quiescence.                                                          *)
(***************************************************************************)
EXTENDS Endpoint

NOW == 1000000     \* Session1 does not advance time

\* ---- absolute events ----
\* A frame may carry a tail: a well-formed Logon numbered as expected that arrives in the same read() behind it.
\* The reader loop stops decoding once the connection is disconnected and disconnect() drops the receive buffer,
\* so the tail is processed only if the first frame left the connection up.
TailOf(ev) == IF "tail" \in DOMAIN ev.f THEN ev.f.tail ELSE ""
TailFrame(ep) == [Frame("LOGON", ep.nin) EXCEPT !.seq = ep.nin] @@ [hdr |-> "ok"]
Handle(ep, ev, declined) ==
    CASE ev.t = "frame" ->
           IF ev.f.hdr = "badbs" \/ Disconnected(ep.cs) \/ ~ep.sock THEN Clr(ep)
           ELSE LET e1 == Swallow(ProcessMessage(Clr(ep), ev.f, ev.now, declined, TRUE)) IN
                IF TailOf(ev) = "" \/ Disconnected(e1.cs) \/ ~e1.sock THEN e1
                ELSE Swallow(ProcessMessage(e1, TailFrame(e1), ev.now, declined, TRUE))
      [] ev.t = "send" -> SendMsg(Clr(ep), ev.m, ev.up)
      [] ev.t = "eof" -> IF ep.sock THEN ReadEOF(Clr(ep), TRUE) ELSE Clr(ep)
      [] ev.t = "attach" -> Attach(Clr(ep), "KEEP")
      [] ev.t = "tick" -> HeartbeatTick(Clr(ep), ev.now, ev.H, TRUE)
      \* time advances by one unit of 1/S second; the heartbeat task wakes iff a wake-up is due then
      \* faildrain: whatever the heartbeat task writes in this quarter is handed to the transport, then drain() raises
      [] ev.t = "adv" -> IF ev.wake THEN HeartbeatTickS(Clr(ep), ev.now, ev.H, ev.S, ~("faildrain" \in DOMAIN ev /\ ev.faildrain))
                         ELSE Clr(ep)
      [] OTHER -> Clr(ep)

\* ---- relative events (what TLC enumerates and the harness concretises against the real object) ----
\* rf = [kind, rel, pd, gf, nm ("rel"|"abs"), nv, bm, bv, em, ev, trid ("", "match", "wrong", literal), hdr, pay]
ResolveFrame(ep, r) ==
    LET seq == ep.nin + r.rel IN
    [kind |-> r.kind, seq |-> seq, pd |-> r.pd, gf |-> r.gf,
     newseq |-> IF r.kind # "SEQRESET" THEN 0 ELSE IF r.nm = "rel" THEN seq + r.nv ELSE ep.nin + r.nv,
     b |-> IF r.kind # "RR" THEN 0 ELSE IF r.bm = "abs" THEN r.bv ELSE ep.nout + r.bv,
     e |-> IF r.kind # "RR" THEN 0 ELSE IF r.em = "abs" THEN r.ev ELSE ep.nout + r.ev,
     trid |-> IF r.trid = "match" THEN (IF ep.treq = 0 THEN "77" ELSE ToString(ep.treq))
              ELSE IF r.trid = "wrong" THEN "12345"                       \* numeric, below any pending id
              ELSE IF r.trid = "wronghi" THEN ToString(ep.treq + 1)          \* numeric, just above the pending id
              ELSE IF r.trid = "wrongtxt" THEN "abc" ELSE r.trid,
     pay |-> IF r.kind = "APP" THEN "11=p" \o ToString(seq) ELSE "", text |-> FALSE, hdr |-> r.hdr,
     tail |-> IF "tail" \in DOMAIN r THEN r.tail ELSE ""]
ResolveSend(ep, r) ==
    [kind |-> r.kind, seq |-> IF r.seqm = "none" THEN 0 ELSE ep.nout + r.seqv, pd |-> r.pd, gf |-> r.gf,
     newseq |-> IF r.kind = "SEQRESET" THEN ep.nout + r.seqv + 1 ELSE 0, b |-> 0, e |-> 0,
     trid |-> IF r.trid = "match" THEN (IF ep.treq = 0 THEN "77" ELSE ToString(ep.treq)) ELSE r.trid,
     pay |-> r.pay, text |-> FALSE]
Resolve(ep, rev) ==
    CASE rev.t = "frame" -> [t |-> "frame", f |-> ResolveFrame(ep, rev.f), now |-> NOW]
      \* faildrain: the bytes are handed to the transport, then drain() raises (the loss is noticed by the sender first)
      [] rev.t = "send" -> [t |-> "send", m |-> ResolveSend(ep, rev.m),
                            up |-> ~("faildrain" \in DOMAIN rev /\ rev.faildrain)]
      [] OTHER -> rev

RF(kind, rel, pd) == [kind |-> kind, rel |-> rel, pd |-> pd, gf |-> FALSE, nm |-> "rel", nv |-> 0, bm |-> "abs", bv |-> 0,
                      em |-> "abs", ev |-> 0, trid |-> "", hdr |-> "ok"]
RS(kind, pay) == [kind |-> kind, seqm |-> "none", seqv |-> 0, pd |-> FALSE, gf |-> FALSE, trid |-> "", pay |-> pay]
FrameEv(f) == [t |-> "frame", f |-> f]
SendEv(m) == [t |-> "send", m |-> m]

RelFrames ==
    { RF("APP", rel, pd) : rel \in {-1, 0, 1, 3}, pd \in BOOLEAN }
    \cup { [RF("HB", rel, FALSE) EXCEPT !.trid = x] : rel \in {0, 1}, x \in {"", "match", "wrong"} }
    \cup { [RF("HB", 0, FALSE) EXCEPT !.trid = x] : x \in {"wronghi", "wrongtxt"} }
    \cup { [RF("TR", rel, FALSE) EXCEPT !.trid = "T1"] : rel \in {0, 1} }
    \cup { [RF("RR", rel, FALSE) EXCEPT !.bm = bm, !.bv = bv, !.em = em, !.ev = evv] :
             rel \in {0, 1},
             bm \in {"abs"}, bv \in {0, 1, 2}, em \in {"abs"}, evv \in {0, 2} }
    \cup { [RF("RR", 0, FALSE) EXCEPT !.bm = "rel", !.bv = bv, !.em = "abs", !.ev = 0] : bv \in {-1, 0, 1} }
    \cup { [RF("SEQRESET", rel, TRUE) EXCEPT !.gf = TRUE, !.nm = "rel", !.nv = nv] : rel \in {-1, 0, 1}, nv \in {0, 1, 3} }
    \cup { [RF("SEQRESET", rel, FALSE) EXCEPT !.nm = "abs", !.nv = nv] : rel \in {0, 1}, nv \in {-1, 2} }
    \cup { RF("LOGON", rel, FALSE) : rel \in {0, 1} }
    \cup { RF("LOGOUT", rel, FALSE) : rel \in {0, 1} }
    \* a Logon that lacks a field the acceptor copies into its reply (HeartBtInt 108 / EncryptMethod 98): the Logon
    \* exchange does not complete, and what follows is still "before the Logon exchange has completed"
    \cup { [RF("LOGON", rel, FALSE) EXCEPT !.hdr = h] : rel \in {0, 1}, h \in {"nohb", "noenc"} }
    \* a frame that must end the connection, with a well-formed Logon behind it in the same read
    \cup { [RF("APP", 0, FALSE) EXCEPT !.hdr = h] @@ [tail |-> "logon"] : h \in {"wrongT", "noseq"} }
    \cup { [RF("APP", 0, FALSE) EXCEPT !.hdr = h] :
             h \in {"nosender", "notarget", "swapped", "wrongS", "wrongT", "noseq", "badbs"} }
    \* the same integrity defects on every session-level kind (a defect must not be excused by the message type)
    \cup { [f EXCEPT !.hdr = h] :
             h \in {"nosender", "wrongS", "noseq"},
             f \in { RF("HB", 0, FALSE), [RF("TR", 0, FALSE) EXCEPT !.trid = "T1"],
                     [RF("RR", 0, FALSE) EXCEPT !.bv = 1],
                     [RF("SEQRESET", 0, TRUE) EXCEPT !.gf = TRUE, !.nv = 1],
                     [RF("SEQRESET", 0, FALSE) EXCEPT !.nm = "abs", !.nv = 2],
                     RF("LOGON", 0, FALSE), RF("LOGOUT", 0, FALSE) } }
RelSends ==
    { RS("APP", "11=s1"), RS("APP", "11=BADENC"), RS("LOGON", ""), RS("LOGOUT", ""), RS("HB", ""),
      [RS("TR", "") EXCEPT !.trid = "9"], [RS("TR", "") EXCEPT !.trid = "match"],
      [RS("SEQRESET", "") EXCEPT !.gf = TRUE],   \* no MsgSeqNum: EncodingError
      [RS("APP", "11=s2") EXCEPT !.pd = TRUE, !.seqm = "rel", !.seqv = -1],
      [RS("APP", "11=s3") EXCEPT !.pd = TRUE] }
FailDrainSends == { SendEv(m) @@ [faildrain |-> TRUE] : m \in { RS("APP", "11=s4"), RS("HB", ""), RS("LOGOUT", "") } }
RelEvents == { FrameEv(f) : f \in RelFrames } \cup { SendEv(m) : m \in RelSends } \cup FailDrainSends
             \cup { [t |-> "eof"], [t |-> "attach"] }

\* ---- preambles (initial histories) ----
LogonIn == FrameEv(RF("LOGON", 0, FALSE))
Preambles ==
    { << [t |-> "attach"] >>,
      << [t |-> "attach"], LogonIn >>,
      << [t |-> "attach"], SendEv(RS("LOGON", "")), LogonIn >>,
      << [t |-> "attach"], LogonIn, SendEv(RS("APP", "11=a")), SendEv(RS("HB", "")), SendEv(RS("APP", "11=b")) >>,
      << [t |-> "attach"], LogonIn, FrameEv(RF("APP", 2, FALSE)) >> }

RECURSIVE RunRel(_, _, _, _)
RunRel(ep, revs, i, declined) ==
    IF i > Len(revs) THEN ep ELSE RunRel(Handle(ep, Resolve(ep, revs[i]), declined), revs, i + 1, declined)
=============================================================================
