----------------------------- MODULE ReconnectFn -----------------------------
(***************************************************************************)
(* The transport life-cycle of an AsyncFIXClient outside a session: the    *)
(* first connect(), the reader task's reconnect timer, connection loss,    *)
(* an application-side disconnect(), and the server becoming reachable or  *)
(* not.  (Beyond the 20 listed properties: grown from connection_client.py *)
(* and socket_read_task.)  Constant-level module: a state record and a     *)
(* step function, plus the clauses evaluated on model behaviours and on    *)
(* recorded executions of the real client.                                 *)
(*                                                                         *)
(* Time is in whole seconds.  rc == [cs, sock, lastc, poll, up]            *)
(*   cs     connection state name                                          *)
(*   sock   a reader/writer pair is attached                                *)
(*   lastc  the reader task's local `last_connect`                          *)
(*   poll   time of the reader task's next wake-up from sleep(1); -1 when   *)
(*          it is blocked in read() on the attached socket, -2 before the   *)
(*          tasks exist                                                     *)
(*   up     the server accepts connections (environment)                    *)
(* As-is details worth naming:                                              *)
(*   - a failed attempt assigns DISCONNECTED_BROKEN_CONN directly (no       *)
(*     state-change callback); a successful one assigns                     *)
(*     NETWORK_CONN_ESTABLISHED directly and calls on_connect               *)
(*   - the timer is `now - last_connect > 1.5 * H`, evaluated once per      *)
(*     second while detached; last_connect is reset by every attempt of     *)
(*     the loop and by every read error, not by an application connect()    *)
(*   - the loop reconnects whatever the disconnect state is (also after a   *)
(*     Logout: DISCONNECTED_WCONN_TODAY / NOCONN_TODAY)                     *)
(***************************************************************************)
EXTENDS Integers, Sequences, FiniteSets, TLC

NCE == "NETWORK_CONN_ESTABLISHED"
BROKEN == "DISCONNECTED_BROKEN_CONN"
WCONN == "DISCONNECTED_WCONN_TODAY"
NOCONN == "DISCONNECTED_NOCONN_TODAY"
DiscStates == {BROKEN, WCONN, NOCONN}

Rc0 == [cs |-> NOCONN, sock |-> FALSE, lastc |-> 0, poll |-> -2, up |-> TRUE]
Out0 == [att |-> 0, cb |-> <<>>, exc |-> "none"]
R(rc, out) == [rc |-> rc, out |-> out]

\* 2 * (now - lastc) > 3 * H   <=>   now - lastc > 1.5 H
Due(rc, now, H) == 2 * (now - rc.lastc) > 3 * H

\* one open_connection() attempt
Attempt(rc, out) ==
    IF rc.up THEN R([rc EXCEPT !.sock = TRUE, !.cs = NCE], [out EXCEPT !.att = @ + 1, !.cb = Append(@, "connect")])
    ELSE R([rc EXCEPT !.cs = BROKEN], [out EXCEPT !.att = @ + 1])

\* the reader task wakes from sleep(1) at time now
Poll(rc, now, H) ==
    LET a == IF Due(rc, now, H)
             THEN IF rc.sock
                  THEN \* attached meanwhile by the application: connect() raises inside the task, logged and ignored
                       R([rc EXCEPT !.lastc = now], Out0)
                  ELSE Attempt([rc EXCEPT !.lastc = now], Out0)
             ELSE R(rc, Out0)
    IN R([a.rc EXCEPT !.poll = IF a.rc.sock THEN -1 ELSE now + 1], a.out)

\* ev.t: "start" (first application connect()), "tick" (one second passes; ev.now is the new time),
\*       "drop" (EOF / reset / transport error on read), "appdisc" (application calls disconnect(ev.st)),
\*       "appconnect" (application calls connect() again), "up" / "down" (server reachability)
Step(rc, ev, H) ==
    CASE ev.t = "start" ->
           IF rc.poll # -2 THEN R(rc, Out0)
           ELSE LET a == Attempt([rc EXCEPT !.lastc = ev.now], Out0)
                IN R([a.rc EXCEPT !.poll = ev.now + 1], a.out)      \* the task slept once before it saw the socket
      [] ev.t = "tick" -> IF rc.poll = ev.now THEN Poll(rc, ev.now, H) ELSE R(rc, Out0)
      [] ev.t = "drop" ->
           IF ~rc.sock \/ rc.poll # -1 THEN R(rc, Out0)
           ELSE R([rc EXCEPT !.sock = FALSE, !.cs = BROKEN, !.lastc = ev.now, !.poll = ev.now + 1],
                  [Out0 EXCEPT !.cb = <<"state:" \o BROKEN, "disconnect">>])
      [] ev.t = "appdisc" ->
           IF rc.cs \in DiscStates THEN R(rc, Out0)
           ELSE \* the closed transport wakes the reader with EOF: its own disconnect() is a no-op, last_connect is reset
                R([rc EXCEPT !.sock = FALSE, !.cs = ev.st,
                             !.lastc = IF rc.poll = -1 THEN ev.now ELSE @,
                             !.poll = IF rc.poll = -1 THEN ev.now + 1 ELSE @],
                  [Out0 EXCEPT !.cb = <<"state:" \o ev.st, "disconnect">>])
      [] ev.t = "appconnect" ->
           IF rc.poll = -2 THEN R(rc, Out0)
           ELSE IF rc.sock THEN R(rc, [Out0 EXCEPT !.exc = "FIXConnectionError"])
           ELSE Attempt(rc, Out0)
      [] ev.t = "up" -> R([rc EXCEPT !.up = TRUE], Out0)
      [] ev.t = "down" -> R([rc EXCEPT !.up = FALSE], Out0)
      [] OTHER -> R(rc, Out0)

(* ---- clauses (over one step: pre, ev, out, post; mon = monitor history) ---------------- *)
\* mon == [tdet, tatt]: time the client last became detached (or was started), time of the last
\* attempt made by the reconnect loop; -1 = never
Mon0 == [tdet |-> -1, tatt |-> -1, tdrop |-> -1]
NextMon(mon, pre, ev, out, post) ==
    [tdet |-> IF ev.t = "start" THEN ev.now
              ELSE IF pre.sock /\ ~post.sock THEN ev.now ELSE mon.tdet,
     tatt |-> IF ev.t = "tick" /\ out.att > 0 THEN ev.now ELSE mon.tatt,
     tdrop |-> IF ev.t = "drop" /\ pre.sock /\ ~post.sock THEN ev.now ELSE mon.tdrop]

\* Q1 the loop never opens a second transport while one is attached, and at most one per wake-up
Q1(pre, ev, out) == ev.t = "tick" => (out.att <= 1 /\ (pre.sock => out.att = 0))
\* Q2 back-off: a loop attempt comes more than 1.5 H after the previous loop attempt and after the last
\* connection loss seen by the reader.  (Not after every detach: an application disconnect() between two
\* polls of a sleeping reader task does not reset the timer - as-is, the next poll may reconnect at once.)
Q2(mon, ev, out, H) ==
    (ev.t = "tick" /\ out.att > 0) =>
        /\ (mon.tdrop >= 0 => 2 * (ev.now - mon.tdrop) > 3 * H)
        /\ (mon.tatt >= 0 => 2 * (ev.now - mon.tatt) > 3 * H)
\* Q3 promptness: while detached, the loop has tried within 1.5 H + 2 s of the later of detach / last loop attempt
Q3(mon2, ev, post, H) ==
    (ev.t = "tick" /\ ~post.sock /\ mon2.tdet >= 0) =>
        LET ref == IF mon2.tatt > mon2.tdet THEN mon2.tatt ELSE mon2.tdet
        IN 2 * (ev.now - ref) <= 3 * H + 4
\* Q4 outcome of an attempt: attached + NETWORK_CONN_ESTABLISHED + exactly one on_connect, or detached + BROKEN
Connects(cb) == Cardinality({i \in DOMAIN cb : cb[i] = "connect"})
Q4(pre, ev, out, post) ==
    out.att > 0 =>
        IF pre.up THEN post.sock /\ post.cs = NCE /\ Connects(out.cb) = 1
        ELSE ~post.sock /\ post.cs = BROKEN /\ Connects(out.cb) = 0
\* Q5 connect() on an attached client is refused and changes nothing
Q5(pre, ev, out, post) ==
    (ev.t = "appconnect" /\ pre.sock) => out.exc = "FIXConnectionError" /\ out.att = 0 /\ post.sock /\ post.cs = pre.cs
\* Q6 on_connect only with an attempt; exactly one on_disconnect when an attached client is dropped
Q6(pre, ev, out, post) ==
    /\ (out.att = 0 => Connects(out.cb) = 0)
    /\ (ev.t = "drop" /\ pre.sock /\ pre.cs \notin DiscStates) =>
           (~post.sock /\ post.cs = BROKEN /\ Cardinality({i \in DOMAIN out.cb : out.cb[i] = "disconnect"}) = 1)
=============================================================================
