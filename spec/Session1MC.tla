---------------------------- MODULE Session1MC ----------------------------
(* Bounded exhaustive exploration of Session1 with the C04/C05/C11/C06 clauses checked on
   every transition of the model, and a dump of a shortest relative-event path to every
   distinct state (replayed against the real connection by the harness). *)
EXTENDS Session1, SessionProps, Json

CONSTANTS Depth, MaxN, Dump, Declined
VARIABLES ep, hist, gap, lastd, d, taint   \* taint: a known-finding trigger has fired on this behaviour
vars == <<ep, hist, gap, lastd, d, taint>>

Obs(e) == [cs |-> e.cs, role |-> e.role, nin |-> e.nin, nout |-> e.nout, maxr |-> e.maxr, treq |-> e.treq,
           sin |-> e.sin, sout |-> e.sout, jout |-> [i \in DOMAIN e.jout |-> e.jout[i] @@ [sha |-> e.jout[i], st |-> "t", ost |-> ""]],
           jin |-> e.jin, buf |-> 0]
Out(e) == [wrote |-> [i \in DOMAIN e.wrote |-> e.wrote[i] @@ [sha |-> RowOf(e.wrote[i]), ost |-> "t", st |-> "t"]],
           deliv |-> e.deliv, cb |-> e.cb, exc |-> e.exc]

RECURSIVE RunH(_, _, _)
RunH(st, revs, i) ==
    IF i > Len(revs) THEN st
    ELSE LET ev == Resolve(st.ep, revs[i])
             e2 == Handle(st.ep, ev, Declined)
         IN RunH([ep |-> e2, gap |-> NextGap(Obs(st.ep), ev, Out(e2), Obs(e2), st.gap),
                  lastd |-> IF e2.deliv # <<>> THEN e2.deliv[Len(e2.deliv)] ELSE st.lastd], revs, i + 1)
Init == \E p \in Preambles :
           LET st == RunH([ep |-> NewEndpoint(1, 1), gap |-> 0, lastd |-> 0], p, 1) IN
           /\ hist = p /\ ep = st.ep /\ gap = st.gap /\ lastd = st.lastd /\ d = 0 /\ taint = FALSE
Next == /\ d < Depth
        /\ \E rev \in RelEvents :
             LET ev == Resolve(ep, rev)
                 e2 == Handle(ep, ev, Declined) IN
             /\ (rev.t = "attach") => Disconnected(ep.cs)
             /\ ep' = e2 /\ hist' = Append(hist, rev) /\ d' = d + 1
             /\ gap' = NextGap(Obs(ep), ev, Out(e2), Obs(e2), gap)
             /\ lastd' = IF e2.deliv # <<>> THEN e2.deliv[Len(e2.deliv)] ELSE lastd
             /\ taint' = (taint \/ Trig_BackwardReset(Obs(ep), ev))
Spec == Init /\ [][Next]_vars
Bound == ep.nin <= MaxN /\ ep.nout <= MaxN
View == <<[ep EXCEPT !.wrote = <<>>, !.deliv = <<>>, !.cb = <<>>, !.exc = "none", !.last = 0], gap, d, taint>>

LastEv == Resolve(ep, hist'[Len(hist')])
\* every clause as an action property over (pre, ev, out, post)
Chk(P(_, _, _, _)) == P(Obs(ep), LastEv, Out(ep'), Obs(ep'))
A_D1 == [][~taint' => (C04_Applies(Obs(ep), LastEv) => Chk(D1))]_vars
A_D2 == [][~taint' => ((C04_Applies(Obs(ep), LastEv) => Chk(D2)))]_vars
A_D3 == [][~taint' => (C04_Applies(Obs(ep), LastEv) => D3(Obs(ep), LastEv, Out(ep'), Obs(ep'), gap))]_vars
A_D4 == [][~taint' => (C04_Applies(Obs(ep), LastEv) => Chk(D4))]_vars
A_D5 == [][~taint' => (C04_Applies(Obs(ep), LastEv) => Chk(D5))]_vars
A_N1 == [][~taint' => (N1(Obs(ep), Out(ep')))]_vars
A_N2 == [][~taint' => (N2(Obs(ep), Out(ep'), Obs(ep')))]_vars
A_N3 == [][~taint' => (N3(Out(ep'), Obs(ep')))]_vars
A_N4 == [][~taint' => (N4(Obs(ep), Out(ep'), Obs(ep')))]_vars
A_N5 == [][~taint' => (Chk(N5))]_vars
A_G1 == [][~taint' => (Chk(G1))]_vars
A_G2 == [][~taint' => (Chk(G2))]_vars
A_G3 == [][~taint' => (Chk(G3))]_vars
A_G4 == [][~taint' => (Chk(G4))]_vars
A_G5 == [][~taint' => (Chk(G5))]_vars
A_R == [][~taint' => (C06_Applies(Obs(ep), LastEv) =>
            /\ R1(Obs(ep), LastEv, Out(ep')) /\ R2(Obs(ep), LastEv, Out(ep'), Declined)
            /\ R4(Out(ep')) /\ R5(Obs(ep), LastEv, Out(ep'), Obs(ep')) /\ R6(Obs(ep), LastEv, Out(ep')))]_vars

Inv_DumpState == Dump => PrintT(<<"STATE", ToJson(hist)>>)
AlphabetDump == PrintT(<<"ALPHA", ToJson(RelEvents)>>)
=============================================================================
