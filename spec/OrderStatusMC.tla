---------------------------- MODULE OrderStatusMC ----------------------------
(* TLC evaluates the laws L1-L5 on the transcribed table over the WHOLE domain
   (15 x 5 x 18 x 15 x 2 points).  The only cells allowed to break a law are the
   test-pinned ones (known finding). *)
EXTENDS OrderStatus
Domain == Statuses \X Kinds \X ExecTypes \X Statuses \X BOOLEAN
Bad == { p \in Domain : LawFails(p[1], p[2], p[3], p[4], p[5], Result(p[1], p[2], p[3], p[4], p[5])) # <<>>
                        /\ ~Trig_PinnedCancelRejectPendingNew(p[1], p[2], p[4]) }
Pinned == { p \in Domain : LawFails(p[1], p[2], p[3], p[4], p[5], Result(p[1], p[2], p[3], p[4], p[5])) # <<>> }
ASSUME PrintT(<<"DOMAIN", Cardinality(Domain), "lawbreaking-unpinned", Cardinality(Bad), "lawbreaking-total", Cardinality(Pinned)>>)
ASSUME Bad = {}
=============================================================================
