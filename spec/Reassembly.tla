----------------------------- MODULE Reassembly -----------------------------
(***************************************************************************)
(* The reader loop of a connection over a byte stream that arrives in      *)
(* arbitrary chunks (property C03), with the REFERENCE decoder contract:   *)
(*   - no frame-start marker in the buffer: drop everything except the     *)
(*     longest tail that is a proper prefix of the marker;                 *)
(*   - marker found: bytes before it are dropped; the frame is delimited   *)
(*     by its own BodyLength (the CheckSum field must follow it); if the   *)
(*     delimiting fields have not arrived yet: wait.                       *)
(* TLC explores every partition of a concrete stream (real frames plus     *)
(* marker-free garbage, given as bytes) into at most MaxReads reads and    *)
(* checks that what has been delivered is exactly the frames that have     *)
(* completely arrived - for every partition, hence independent of it.      *)
(***************************************************************************)
EXTENDS Wire, Json, IOUtils

CONSTANTS MaxReads
Layout == JsonDeserialize(IOEnv.STREAM_FILE)    \* [bytes |-> <<..>>, ends |-> <<end offset of every frame>>]
Stream == Layout.bytes
Ends == Layout.ends

VARIABLES pos, buf, delivered, nreads
vars == <<pos, buf, delivered, nreads>>

KeepTail(b) ==      \* length of the longest suffix of b that is a proper prefix of the marker
    LET C == { k \in 1..5 : k <= Len(b) /\ SubSeq(b, Len(b) - k + 1, Len(b)) = SubSeq(Marker, 1, k) }
    IN IF C = {} THEN 0 ELSE CHOOSE k \in C : \A x \in C : x <= k

\* end position (within r, which starts at a marker) of the frame delimited by BodyLength; 0 = not determinable yet
FrameEnd(r) ==
    LET S == { i \in DOMAIN r : r[i] = SOHb } IN
    IF Cardinality(S) < 2 THEN 0
    ELSE LET s1 == CHOOSE i \in S : \A x \in S : i <= x
             s2 == CHOOSE i \in S \ {s1} : \A x \in S \ {s1} : i <= x
             lenf == SubSeq(r, s1 + 1, s2 - 1)
         IN IF Len(lenf) < 3 \/ lenf[1] # 57 \/ lenf[2] # EQb \/ ~AllDigits(SubSeq(lenf, 3, Len(lenf))) THEN 0
            ELSE LET t == s2 + 1 + ToNat(SubSeq(lenf, 3, Len(lenf)), 1, 0) IN
                 IF t + 6 <= Len(r) /\ r[t] = 49 /\ r[t + 1] = 48 /\ r[t + 2] = EQb /\ IsDigit(r[t + 3]) /\ IsDigit(r[t + 4])
                    /\ IsDigit(r[t + 5]) /\ r[t + 6] = SOHb
                 THEN t + 6 ELSE 0

RefDecode(b) ==
    LET m == FirstMarker(b) IN
    IF m = 0 THEN [kind |-> "skip", consumed |-> Len(b) - KeepTail(b)]
    ELSE LET fe == FrameEnd(SubSeq(b, m, Len(b))) IN
         IF fe > 0 THEN [kind |-> "msg", consumed |-> m - 1 + fe]
         ELSE [kind |-> "wait", consumed |-> m - 1]

\* the reader's inner loop: decode until nothing more can be done; returns [buf, n] (n frames delivered)
RECURSIVE Drain(_, _)
Drain(b, n) ==
    IF b = <<>> THEN [buf |-> b, n |-> n]
    ELSE LET r == RefDecode(b)
             b2 == SubSeq(b, r.consumed + 1, Len(b))
         IN IF r.kind = "msg" THEN Drain(b2, n + 1)
            ELSE [buf |-> b2, n |-> n]

Init == pos = 0 /\ buf = <<>> /\ delivered = 0 /\ nreads = 0
Read(k) ==
    /\ pos + k <= Len(Stream)
    /\ nreads + 1 < MaxReads \/ pos + k = Len(Stream)       \* the last allowed read takes the rest
    /\ LET d == Drain(buf \o SubSeq(Stream, pos + 1, pos + k), 0) IN
       /\ buf' = d.buf /\ delivered' = delivered + d.n
    /\ pos' = pos + k /\ nreads' = nreads + 1
Next == \E k \in 1..Len(Stream) : Read(k)
Spec == Init /\ [][Next]_vars

Arrived(p) == Cardinality({ i \in DOMAIN Ends : Ends[i] <= p })
ChunkIndependence == delivered = Arrived(pos)
NoBacklog == Len(buf) <= Len(Stream)
=============================================================================
