------------------------------- MODULE Lexical -------------------------------
(***************************************************************************)
(* Lexical spaces of the FIX 4.4 datatypes as recognisers over strings     *)
(* (property C19, also used by C15).  InLex(type, s) is three-valued:      *)
(*   "yes"  s is in the lexical space  -> validation must accept           *)
(*   "no"   s is not                   -> validation must reject with the  *)
(*                                        library's message error          *)
(*   "unspec"  neither the property text nor FIX 4.4 settles it -> nothing *)
(*             is asserted.  The complete list of "unspec" decisions:      *)
(*     - float family written with a leading dot (".5", "-.5")             *)
(*     - '=' inside String / MultipleValueString / char values             *)
(*     - Currency / Country shorter than 3 / 2 characters, Exchange or any *)
(*       code with characters other than ASCII letters and digits          *)
(*     - timestamps / times with a fraction that is not exactly 3 digits   *)
(*     - year 0000 in dates; second 60 (leap second)                       *)
(*     - Length, data (the property does not list them)                    *)
(*     - MultipleValueString with leading / trailing / double spaces       *)
(*     - numerals longer than 300 characters (a double overflows at 309)   *)
(***************************************************************************)
EXTENDS Integers, Sequences, FiniteSets, TLC

Ch(s, i) == SubSeq(s, i, i)
Digits == {"0", "1", "2", "3", "4", "5", "6", "7", "8", "9"}
Upper == {"A","B","C","D","E","F","G","H","I","J","K","L","M","N","O","P","Q","R","S","T","U","V","W","X","Y","Z"}
Lower == {"a","b","c","d","e","f","g","h","i","j","k","l","m","n","o","p","q","r","s","t","u","v","w","x","y","z"}
AllDig(s) == Len(s) > 0 /\ \A i \in 1..Len(s) : Ch(s, i) \in Digits
DVal(c) == CASE c = "0" -> 0 [] c = "1" -> 1 [] c = "2" -> 2 [] c = "3" -> 3 [] c = "4" -> 4 [] c = "5" -> 5
             [] c = "6" -> 6 [] c = "7" -> 7 [] c = "8" -> 8 [] c = "9" -> 9 [] OTHER -> 0
RECURSIVE NatOf(_, _, _)
\* numeric value of a digit string, saturating so that TLC's 32-bit integers never overflow
NatOf(s, i, acc) == IF i > Len(s) THEN acc ELSE NatOf(s, i + 1, IF acc > 100000000 THEN acc ELSE acc * 10 + DVal(Ch(s, i)))
Count(s, c) == Cardinality({ i \in 1..Len(s) : Ch(s, i) = c })
Pos(s, c) == CHOOSE i \in 1..Len(s) : Ch(s, i) = c /\ \A j \in 1..(i - 1) : Ch(s, j) # c

Y3(b) == IF b THEN "yes" ELSE "no"
IntLex(s) == LET t == IF Len(s) > 0 /\ Ch(s, 1) = "-" THEN SubSeq(s, 2, Len(s)) ELSE s IN AllDig(t)
FloatLex(s) ==
    LET t == IF Len(s) > 0 /\ Ch(s, 1) = "-" THEN SubSeq(s, 2, Len(s)) ELSE s IN
    IF Count(t, ".") = 0 THEN Y3(AllDig(t))
    ELSE IF Count(t, ".") > 1 THEN "no"
    ELSE LET p == Pos(t, ".")
             a == SubSeq(t, 1, p - 1)
             b == SubSeq(t, p + 1, Len(t)) IN
         IF a = "" THEN (IF AllDig(b) THEN "unspec" ELSE "no")
         ELSE Y3(AllDig(a) /\ (b = "" \/ AllDig(b)))
PosIntLex(s) == AllDig(s) /\ NatOf(s, 1, 0) > 0

LeapYear(y) == (y % 4 = 0 /\ y % 100 # 0) \/ y % 400 = 0
DaysIn(y, m) == IF m \in {1, 3, 5, 7, 8, 10, 12} THEN 31 ELSE IF m \in {4, 6, 9, 11} THEN 30 ELSE IF LeapYear(y) THEN 29 ELSE 28
\* YYYYMMDD
DateLex(s) ==
    IF Len(s) # 8 \/ ~AllDig(s) THEN "no"
    ELSE LET y == NatOf(SubSeq(s, 1, 4), 1, 0)  m == NatOf(SubSeq(s, 5, 6), 1, 0)  d == NatOf(SubSeq(s, 7, 8), 1, 0) IN
         IF m < 1 \/ m > 12 \/ d < 1 \/ d > DaysIn(y, m) THEN "no" ELSE IF y = 0 THEN "unspec" ELSE "yes"
\* HH:MM:SS or HH:MM:SS.sss
TimeLex(s) ==
    IF Len(s) < 8 THEN "no"
    ELSE LET hms == SubSeq(s, 1, 8)
             frac == SubSeq(s, 9, Len(s))
             shape == AllDig(SubSeq(hms, 1, 2)) /\ Ch(hms, 3) = ":" /\ AllDig(SubSeq(hms, 4, 5)) /\ Ch(hms, 6) = ":" /\ AllDig(SubSeq(hms, 7, 8))
         IN IF ~shape THEN "no"
            ELSE LET h == NatOf(SubSeq(hms, 1, 2), 1, 0)  mi == NatOf(SubSeq(hms, 4, 5), 1, 0)  se == NatOf(SubSeq(hms, 7, 8), 1, 0) IN
                 IF h > 23 \/ mi > 59 \/ se > 60 THEN "no"
                 ELSE IF se = 60 THEN "unspec"            \* leap second: allowed by FIX, not representable by most libraries
                 ELSE IF frac = "" THEN "yes"
                 ELSE IF Ch(frac, 1) # "." \/ Len(frac) = 1 \/ ~AllDig(SubSeq(frac, 2, Len(frac))) THEN "no"
                 ELSE IF Len(frac) = 4 THEN "yes" ELSE "unspec"
And3(a, b) == IF a = "no" \/ b = "no" THEN "no" ELSE IF a = "unspec" \/ b = "unspec" THEN "unspec" ELSE "yes"
TimestampLex(s) ==
    IF Len(s) < 17 \/ Ch(s, 9) # "-" THEN "no" ELSE And3(DateLex(SubSeq(s, 1, 8)), TimeLex(SubSeq(s, 10, Len(s))))
MonthYearLex(s) ==
    IF Len(s) = 6 THEN (IF AllDig(s) /\ NatOf(SubSeq(s, 5, 6), 1, 0) \in 1..12 THEN (IF NatOf(SubSeq(s, 1, 4), 1, 0) = 0 THEN "unspec" ELSE "yes") ELSE "no")
    ELSE IF Len(s) = 8
         THEN IF AllDig(s) THEN DateLex(s)
              ELSE IF AllDig(SubSeq(s, 1, 6)) /\ NatOf(SubSeq(s, 5, 6), 1, 0) \in 1..12 /\ Ch(s, 7) = "w" /\ Ch(s, 8) \in {"1", "2", "3", "4", "5"}
                   THEN (IF NatOf(SubSeq(s, 1, 4), 1, 0) = 0 THEN "unspec" ELSE "yes") ELSE "no"
         ELSE "no"
AlnumAscii(s) == \A i \in 1..Len(s) : Ch(s, i) \in Digits \cup Upper \cup Lower
CodeLex(s, n, exact) ==       \* Currency 3, Country 2 (exact length), Exchange up to 4
    IF Len(s) > n THEN "no"
    ELSE IF ~AlnumAscii(s) THEN "unspec"
    ELSE IF exact /\ Len(s) < n THEN "unspec" ELSE "yes"
StringLex(s, soh) ==
    IF \E i \in 1..Len(s) : Ch(s, i) = soh THEN "no" ELSE IF \E i \in 1..Len(s) : Ch(s, i) = "=" THEN "unspec" ELSE "yes"

\* soh = the SOH character as a one-character string (TLA+ has no escape for it; supplied by the caller)
NumericTypes == {"INT", "FLOAT", "QTY", "PRICE", "PRICEOFFSET", "AMT", "PERCENTAGE", "SEQNUM", "NUMINGROUP", "DAYOFMONTH", "LENGTH"}
InLex0(type, s, soh) ==
    IF s = "" THEN "no"
    ELSE CASE type = "INT" -> Y3(IntLex(s))
           [] type \in {"FLOAT", "QTY", "PRICE", "PRICEOFFSET", "AMT", "PERCENTAGE"} -> FloatLex(s)
           [] type \in {"SEQNUM", "NUMINGROUP"} -> Y3(PosIntLex(s))
           [] type = "DAYOFMONTH" -> Y3(AllDig(s) /\ NatOf(s, 1, 0) \in 1..31)
           [] type = "BOOLEAN" -> Y3(s \in {"Y", "N"})
           [] type = "CHAR" -> IF Len(s) # 1 THEN "no" ELSE StringLex(s, soh)
           [] type = "STRING" -> StringLex(s, soh)
           [] type \in {"MULTIPLEVALUESTRING", "MULTIPLESTRINGVALUE"} ->
                 IF Ch(s, 1) = " " \/ Ch(s, Len(s)) = " " \/ \E i \in 1..(Len(s) - 1) : Ch(s, i) = " " /\ Ch(s, i + 1) = " " THEN And3("unspec", StringLex(s, soh))
                 ELSE StringLex(s, soh)
           [] type = "CURRENCY" -> CodeLex(s, 3, TRUE)
           [] type = "COUNTRY" -> CodeLex(s, 2, TRUE)
           [] type = "EXCHANGE" -> CodeLex(s, 4, FALSE)
           [] type \in {"UTCDATEONLY", "LOCALMKTDATE"} -> DateLex(s)
           [] type = "UTCTIMEONLY" -> TimeLex(s)
           [] type = "UTCTIMESTAMP" -> TimestampLex(s)
           [] type = "MONTHYEAR" -> MonthYearLex(s)
           [] OTHER -> "unspec"        \* LENGTH, DATA, unknown types
\* numerals of more than 300 characters are in the lexical space but beyond what any implementation can be
\* required to represent (a double overflows at 309 digits): acceptance unspecified, rejection class still asserted
InLex(type, s, soh) ==
    LET r == InLex0(type, s, soh) IN IF type \in NumericTypes /\ Len(s) > 300 /\ r = "yes" THEN "unspec" ELSE r
=============================================================================
