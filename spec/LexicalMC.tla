------------------------------ MODULE LexicalMC ------------------------------
(* Self-test of the recognisers on a table of known members / non-members (TLC evaluates it
   before the recognisers are used as an oracle). *)
EXTENDS Lexical
S == "|"       \* stands for SOH in this table
Table == <<
  <<"INT", "0", "yes">>, <<"INT", "-12", "yes">>, <<"INT", "007", "yes">>, <<"INT", "+5", "no">>, <<"INT", "1_0", "no">>, <<"INT", " 5", "no">>,
  <<"INT", "5 ", "no">>, <<"INT", "1e3", "no">>, <<"INT", "-", "no">>, <<"INT", "1.0", "no">>, <<"INT", "--1", "no">>,
  <<"QTY", "1", "yes">>, <<"QTY", "-1.5", "yes">>, <<"QTY", "5.", "yes">>, <<"QTY", ".5", "unspec">>, <<"QTY", "1.2.3", "no">>, <<"QTY", "1e3", "no">>,
  <<"QTY", "nan", "no">>, <<"QTY", "inf", "no">>, <<"QTY", "+1", "no">>, <<"QTY", "1_0", "no">>, <<"QTY", ".", "no">>, <<"QTY", "-.", "no">>,
  <<"SEQNUM", "1", "yes">>, <<"SEQNUM", "0", "no">>, <<"SEQNUM", "00", "no">>, <<"SEQNUM", "-1", "no">>, <<"SEQNUM", "01", "yes">>,
  <<"DAYOFMONTH", "1", "yes">>, <<"DAYOFMONTH", "31", "yes">>, <<"DAYOFMONTH", "32", "no">>, <<"DAYOFMONTH", "0", "no">>, <<"DAYOFMONTH", "09", "yes">>,
  <<"BOOLEAN", "Y", "yes">>, <<"BOOLEAN", "N", "yes">>, <<"BOOLEAN", "y", "no">>, <<"BOOLEAN", "YN", "no">>,
  <<"CHAR", "a", "yes">>, <<"CHAR", "ab", "no">>, <<"CHAR", "=", "unspec">>, <<"CHAR", "|", "no">>,
  <<"STRING", "a b", "yes">>, <<"STRING", "a|b", "no">>, <<"STRING", "a=b", "unspec">>,
  <<"CURRENCY", "USD", "yes">>, <<"CURRENCY", "USDX", "no">>, <<"CURRENCY", "US", "unspec">>, <<"CURRENCY", "U_D", "unspec">>,
  <<"COUNTRY", "US", "yes">>, <<"COUNTRY", "USA", "no">>, <<"EXCHANGE", "XNYS", "yes">>, <<"EXCHANGE", "N", "yes">>, <<"EXCHANGE", "XNYSE", "no">>,
  <<"UTCDATEONLY", "20240229", "yes">>, <<"UTCDATEONLY", "20230229", "no">>, <<"UTCDATEONLY", "20241301", "no">>, <<"UTCDATEONLY", "2024011", "no">>,
  <<"UTCDATEONLY", "19000229", "no">>, <<"UTCDATEONLY", "20000229", "yes">>, <<"UTCDATEONLY", "00000101", "unspec">>,
  <<"UTCTIMEONLY", "23:59:60", "unspec">>, <<"UTCTIMEONLY", "23:59:59", "yes">>, <<"UTCTIMEONLY", "24:00:00", "no">>, <<"UTCTIMEONLY", "1:2:3", "no">>, <<"UTCTIMEONLY", "00:00:00.000", "yes">>,
  <<"UTCTIMEONLY", "00:00:61", "no">>, <<"UTCTIMEONLY", "00:00:00.", "no">>, <<"UTCTIMEONLY", "00:00:00.0", "unspec">>,
  <<"UTCTIMESTAMP", "20240101-01:02:03", "yes">>, <<"UTCTIMESTAMP", "20240101-1:2:3", "no">>, <<"UTCTIMESTAMP", "2024011-01:02:03", "no">>,
  <<"UTCTIMESTAMP", "20240101-01:02:03.123", "yes">>, <<"UTCTIMESTAMP", "20240101 01:02:03", "no">>, <<"UTCTIMESTAMP", "20240230-01:02:03", "no">>,
  <<"MONTHYEAR", "202401", "yes">>, <<"MONTHYEAR", "202413", "no">>, <<"MONTHYEAR", "20240131", "yes">>, <<"MONTHYEAR", "202401w5", "yes">>,
  <<"MONTHYEAR", "202401w6", "no">>, <<"MONTHYEAR", "2024w1", "no">>, <<"MONTHYEAR", "20240132", "no">>,
  <<"DATA", "anything", "unspec">> >>
Wrong == { i \in DOMAIN Table : InLex(Table[i][1], Table[i][2], S) # Table[i][3] }
ASSUME PrintT(<<"LEXICAL-SELFTEST", Len(Table), "wrong", { <<Table[i][1], Table[i][2], InLex(Table[i][1], Table[i][2], S)>> : i \in Wrong }>>)
ASSUME Wrong = {}
=============================================================================
