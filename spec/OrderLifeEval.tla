---------------------------- MODULE OrderLifeEval ----------------------------
(* C17 on the real FIXNewOrderSingle: each trace is one behaviour of OrderLife.tla (events with
   the report handed to the client at every c_recv) replayed on a real order object; after
   every event the object's attributes are recorded (obs).  The evaluator re-runs the model's
   step function to know the exchange's state and what is in flight, and judges the REAL
   object with the clauses O1-O5; equality with the model's own client is conformance. *)
EXTENDS OrderLifeFn, IOUtils
Traces == JsonDeserialize(IOEnv.TRACE_FILE)
Fc(n, ok) == IF ok THEN <<>> ELSE <<n>>
Cl(ob) == [st |-> ob.st, clord |-> ob.clord, orig |-> ob.orig, qty |-> ob.qty, px |-> ob.px, cum |-> ob.cum, leaves |-> ob.leaves]
ModelCl(o) == [st |-> o.st, clord |-> o.clord, orig |-> o.orig, qty |-> o.qty, px |-> o.px, cum |-> o.cum, leaves |-> o.leaves]
HasRoot(id) == Len(id) > Len(Root) + 2 /\ SubSeq(id, 1, Len(Root) + 2) = Root \o "--"
RECURSIVE Run(_, _, _, _)
Run(tr, i, x, acc) ==
    IF i > Len(tr.steps) THEN acc
    ELSE LET st == tr.steps[i]
             ev == st.ev
             ob == st.obs
             ok == Guard(x, ev)
             x2 == IF ok THEN Do(x, ev) ELSE x
             c == Cl(ob)
             isreq == ev.a \in {"c_new", "c_cancel", "c_replace"}
             fl == Fc("HARNESS_guard", ok)
                \o Fc("O1", ob.enum /\ O1c(c))
                \o Fc("O2", O2c(c))
                \o Fc("O3_request_builds", isreq => (ob.exc = "none" /\ ob.req.id \notin x.used /\ HasRoot(ob.req.id)
                                                      /\ (ev.a # "c_new" => ob.req.orig = x.o.clord)))
                \o Fc("O3_report_processed", ev.a = "c_recv" => ob.exc = "none")
                \o Fc("O3_predicates", ob.can_cancel = CanRequest(c.st) /\ ob.can_replace = CanRequest(c.st) /\ ob.finished = (c.st \in Finished))
                \o Fc("O6_finished_refuses", ob.finished => (ob.probe_cancel = "refused" /\ ob.probe_replace = "refused"))
                \o Fc("O3_live_id", O3live(x2, c))
                \o Fc("O4", O4c(x2, c)) \o Fc("O5", O5c(x2, c))
             dr == c # ModelCl(x2.o)
         IN Run(tr, i + 1, x2, [fails |-> acc.fails \o [k \in DOMAIN fl |-> [step |-> i, clause |-> fl[k]]],
                                drift |-> acc.drift \o (IF dr THEN <<i>> ELSE <<>>),
                                nquiet |-> acc.nquiet + (IF QuiescentS(x2) THEN 1 ELSE 0)])
Verdict(tr) == [id |-> tr.id] @@ Run(tr, 1, S0, [fails |-> <<>>, drift |-> <<>>, nquiet |-> 0])
ASSUME JsonSerialize(IOEnv.OUT_FILE, [i \in DOMAIN Traces |-> Verdict(Traces[i])])
=============================================================================
