----------------------------- MODULE JournalTx -----------------------------
(***************************************************************************)
(* The journal with SQLite transactions, as the Python sqlite3 module runs *)
(* it (legacy isolation level): a data-modifying statement implicitly      *)
(* opens a transaction, only commit() makes the changes durable, a process *)
(* death or close() without commit rolls the open transaction back.        *)
(*                                                                         *)
(*   D    durable database (what a fresh connection sees)                  *)
(*   V    the owning connection's view (D plus uncommitted changes)        *)
(*                                                                         *)
(* Every public method is the list of statements journaler.py executes;    *)
(* Crash may happen at every statement boundary.  Property C08 clauses are *)
(* evaluated in the crashed / closed state against the functional model    *)
(* Journal!ApplyAll of the completed operations.                           *)
(***************************************************************************)
EXTENDS Journal, Json

CONSTANTS SetSeqCommits,   \* TRUE: set_seq_num ends with commit() (the repaired code)
          MaxOps, Dump
VARIABLES D, V, objs, done, cur, pc, phase, R
vars == <<D, V, objs, done, cur, pc, phase, R>>

NoOp == [op |-> "none"]
Pairs == { <<"T", "S">>, <<"S", "T">> }
Ops == [op : {"col"}, t : {"T", "S"}, s : {"T", "S"}]
       \cup [op : {"persist"}, so : {1, 2}, dir : {"in", "out"}, seq : {1, 2}, data : {"a", "b"}]
       \cup [op : {"setseq"}, so : {1, 2}, a : {0, 1, 3}, b : {0, 1, 2}]

\* statement list of an operation, given the connection's current view
Stmts(o) ==
    CASE o.op = "col" ->
           IF InsSessOK(V, o.t, o.s) THEN << [k |-> "ins_sess", t |-> o.t, s |-> o.s], [k |-> "commit"], [k |-> "ret_col_new"] >>
           ELSE << [k |-> "fail"], [k |-> "select"], [k |-> "ret_col_old", t |-> o.t, s |-> o.s] >>
      [] o.op = "persist" ->
           LET key == objs[o.so].key IN
           IF InsMsgOK(V, key, o.dir, o.seq)
           THEN << [k |-> "ins_msg", key |-> key, dir |-> o.dir, seq |-> o.seq, data |-> o.data],
                   [k |-> "upd", key |-> key, dir |-> o.dir, v |-> o.seq], [k |-> "commit"] >>
           ELSE << [k |-> "fail"] >>
      [] o.op = "setseq" ->
           LET so == objs[o.so]
               nout == IF o.a = 0 THEN so.nout ELSE o.a
               nin == IF o.b = 0 THEN so.nin ELSE o.b IN
           << [k |-> "obj", so |-> o.so, nout |-> nout, nin |-> nin],
              [k |-> "upd_both", key |-> so.key, vin |-> nin - 1, vout |-> nout - 1],
              [k |-> "del", key |-> so.key, dir |-> "in", n |-> nin],
              [k |-> "del", key |-> so.key, dir |-> "out", n |-> nout] >>
           \o (IF SetSeqCommits THEN << [k |-> "commit"] >> ELSE << >>)

Exec(s) ==
    CASE s.k = "ins_sess" -> V' = InsSess(V, s.t, s.s) /\ UNCHANGED <<D, objs>>
      [] s.k = "ins_msg" -> V' = InsMsg(V, s.key, s.dir, s.seq, s.data) /\ UNCHANGED <<D, objs>>
      [] s.k = "upd" -> V' = (IF s.dir = "out" THEN UpdOut(V, s.key, s.v) ELSE UpdIn(V, s.key, s.v)) /\ UNCHANGED <<D, objs>>
      [] s.k = "upd_both" -> V' = UpdBoth(V, s.key, s.vin, s.vout) /\ UNCHANGED <<D, objs>>
      [] s.k = "del" -> V' = DelFrom(V, s.key, s.dir, s.n) /\ UNCHANGED <<D, objs>>
      [] s.k = "commit" -> D' = V /\ UNCHANGED <<V, objs>>
      [] s.k = "obj" -> objs' = [objs EXCEPT ![s.so] = [@ EXCEPT !.nout = s.nout, !.nin = s.nin]] /\ UNCHANGED <<D, V>>
      [] s.k = "ret_col_new" -> objs' = Append(objs, [key |-> Len(V.sess), nout |-> 1, nin |-> 1]) /\ UNCHANGED <<D, V>>
      [] s.k = "ret_col_old" -> objs' = Append(objs, CreateOrLoad(V, s.t, s.s).res) /\ UNCHANGED <<D, V>>
      [] OTHER -> UNCHANGED <<D, V, objs>>

Init == /\ D = EmptyJ /\ V = EmptyJ /\ objs = <<>> /\ done = <<>> /\ cur = NoOp /\ pc = <<>>
        /\ phase = "run" /\ R = EmptyJ

Start == /\ phase = "run" /\ cur = NoOp /\ Len(done) < MaxOps
         /\ \E o \in Ops :
              /\ o.op = "col" => Len(objs) < 2
              /\ o.op # "col" => o.so \in DOMAIN objs
              /\ o.op = "setseq" => o.a + o.b > 0
              /\ cur' = o /\ pc' = Stmts(o)
         /\ UNCHANGED <<D, V, objs, done, phase, R>>
Step == /\ phase = "run" /\ cur # NoOp /\ pc # <<>>
        /\ Exec(Head(pc)) /\ pc' = Tail(pc)
        /\ UNCHANGED <<done, cur, phase, R>>
Return == /\ phase = "run" /\ cur # NoOp /\ pc = <<>>
          /\ done' = Append(done, cur) /\ cur' = NoOp
          /\ UNCHANGED <<D, V, objs, pc, phase, R>>
Crash == /\ phase = "run"
         /\ phase' = "crashed" /\ R' = D
         /\ UNCHANGED <<D, V, objs, done, cur, pc>>
Close == /\ phase = "run" /\ cur = NoOp
         /\ phase' = "closed" /\ R' = D      \* close() without commit rolls back
         /\ UNCHANGED <<D, V, objs, done, cur, pc>>
Next == Start \/ Step \/ Return \/ Crash \/ Close
Spec == Init /\ [][Next]_vars

Before == ApplyAll(done, 1, St0).j
After == IF cur = NoOp THEN Before ELSE ApplyAll(Append(done, cur), 1, St0).j

\* C08 clauses
J1 == phase = "crashed" => R \in {Before, After}
J3 == (phase = "crashed" /\ cur = NoOp) => R = Before     \* every completed operation is durable
J4 == phase = "closed" => R = Before                       \* normal close loses nothing
\* ("a message row never exists without its counter update" is J1: the recovered state is
\*  one of the two operation boundaries, in both of which row and counter go together.)
\* the view of a quiescent connection is the functional model
Refines == (phase = "run" /\ cur = NoOp) => V = Before

View == <<D, V, objs, cur, pc, phase, R>>
Inv_DumpState == (Dump /\ phase = "run" /\ cur = NoOp) => PrintT(<<"STATE", ToJson(done)>>)
=============================================================================
