---------------------------- MODULE SessionEval ----------------------------
(* Evaluates recorded executions of ONE real connection (harness/session.py) against
   - the property clauses of SessionProps.tla (C04 D-, C05 N-, C11 G-, C06 R-clauses): verdict
   - the step function of Session1.tla / Endpoint.tla: conformance (drift, never an alarm)
   A trace is [id, declined, steps]; a step is [ev, pre, post, out]. *)
EXTENDS Session1, SessionProps, Json, IOUtils

Traces == JsonDeserialize(IOEnv.TRACE_FILE)

ToSetS(s) == { s[i] : i \in DOMAIN s }

\* ---- conformance: projection -> model endpoint -> Handle -> compare ----
AbsRow(r) == [seq |-> r.seq, kind |-> r.kind, pd |-> r.pd, gf |-> r.gf, newseq |-> r.newseq, pay |-> r.pay]
AbsFr(w) == [kind |-> w.kind, seq |-> w.seq, pd |-> w.pd, gf |-> w.gf, newseq |-> w.newseq, b |-> w.b, e |-> w.e,
             trid |-> w.trid, pay |-> w.pay, text |-> w.text]
ToEp(p) == [cs |-> p.cs, role |-> p.role, nin |-> p.nin, nout |-> p.nout, maxr |-> p.maxr, treq |-> p.treq,
            last |-> p.last, wasActive |-> p.wasActive, sock |-> p.sock,
            jout |-> [i \in DOMAIN p.jout |-> AbsRow(p.jout[i])], jin |-> p.jin, sin |-> p.sin, sout |-> p.sout,
            wrote |-> <<>>, deliv |-> <<>>, cb |-> <<>>, exc |-> "none"]
Diff(m, post, out, ev) ==
    (IF m.cs # post.cs THEN <<"cs">> ELSE <<>>) \o
    (IF m.role # post.role THEN <<"role">> ELSE <<>>) \o
    (IF m.nin # post.nin THEN <<"nin">> ELSE <<>>) \o
    (IF m.nout # post.nout THEN <<"nout">> ELSE <<>>) \o
    (IF m.maxr # post.maxr THEN <<"maxr">> ELSE <<>>) \o
    (IF m.treq # post.treq THEN <<"treq">> ELSE <<>>) \o
    (IF m.last # post.last THEN <<"last">> ELSE <<>>) \o
    (IF m.sin # post.sin THEN <<"sin">> ELSE <<>>) \o
    (IF m.sout # post.sout THEN <<"sout">> ELSE <<>>) \o
    (IF m.jin # post.jin THEN <<"jin">> ELSE <<>>) \o
    (IF m.jout # [i \in DOMAIN post.jout |-> AbsRow(post.jout[i])] THEN <<"jout">> ELSE <<>>) \o
    (IF m.wrote # [i \in DOMAIN out.wrote |-> AbsFr(out.wrote[i])] THEN <<"wrote">> ELSE <<>>) \o
    (IF m.deliv # out.deliv THEN <<"deliv">> ELSE <<>>) \o
    (IF m.cb # out.cb THEN <<"cb">> ELSE <<>>) \o
    (IF ev.t = "send" /\ m.exc # out.exc THEN <<"exc">> ELSE <<>>)

\* ---- clauses: names of those that fail on one step ----
Fails(pre, ev, out, post, gap, lastd, declined) ==
    LET c04 == C04_Applies(pre, ev)
        c06 == C06_Applies(pre, ev)
        F(name, ok) == IF ok THEN <<>> ELSE <<name>>
    IN  F("D1", c04 => D1(pre, ev, out, post)) \o F("D2", c04 => D2(pre, ev, out, post))
     \o F("D3", c04 => D3(pre, ev, out, post, gap)) \o F("D4", c04 => D4(pre, ev, out, post))
     \o F("D5", c04 => D5(pre, ev, out, post))
     \o F("DH", DH(out, lastd))
     \o F("N1", N1(pre, out)) \o F("N2", N2(pre, out, post)) \o F("N3", N3(out, post))
     \o F("N4", N4(pre, out, post)) \o F("N5", N5(pre, ev, out, post))
     \o F("G1", G1(pre, ev, out, post)) \o F("G2", G2(pre, ev, out, post)) \o F("G3", G3(pre, ev, out, post))
     \o F("G4", G4(pre, ev, out, post)) \o F("G5", G5(pre, ev, out, post))
     \o F("R1", c06 => R1(pre, ev, out)) \o F("R2", c06 => R2(pre, ev, out, declined))
     \o F("R3", c06 => R3(pre, out)) \o F("R4", c06 => R4(out))
     \o F("R5", c06 => R5(pre, ev, out, post)) \o F("R6", c06 => R6(pre, ev, out))
Applic(pre, ev) ==
    (IF C04_Applies(pre, ev) THEN <<"C04">> ELSE <<>>) \o (IF C06_Applies(pre, ev) THEN <<"C06">> ELSE <<>>)
Trigs(pre, ev) == IF Trig_BackwardReset(pre, ev) THEN <<"Trig_BackwardReset">> ELSE <<>>

RECURSIVE Run(_, _, _, _, _)
Run(tr, i, gap, lastd, acc) ==
    IF i > Len(tr.steps) THEN acc
    ELSE LET s == tr.steps[i]
             decl == ToSetS(tr.declined)
             fl == Fails(s.pre, s.ev, s.out, s.post, gap, lastd, decl)
             tg == Trigs(s.pre, s.ev)
             m == Handle(ToEp(s.pre), s.ev, decl)
             df == Diff(m, s.post, s.out, s.ev)
             acc2 == [fails |-> acc.fails \o [k \in DOMAIN fl |-> [step |-> i, clause |-> fl[k]]],
                      trigs |-> acc.trigs \o [k \in DOMAIN tg |-> [step |-> i, name |-> tg[k]]],
                      drift |-> acc.drift \o (IF df = <<>> THEN <<>> ELSE <<[step |-> i, fields |-> df]>>),
                      applic |-> acc.applic \o Applic(s.pre, s.ev)]
         IN Run(tr, i + 1, NextGap(s.pre, s.ev, s.out, s.post, gap),
                IF s.out.deliv # <<>> THEN s.out.deliv[Len(s.out.deliv)] ELSE lastd, acc2)

Verdict(tr) == [id |-> tr.id] @@ Run(tr, 1, 0, 0, [fails |-> <<>>, trigs |-> <<>>, drift |-> <<>>, applic |-> <<>>])

ASSUME JsonSerialize(IOEnv.OUT_FILE, [i \in DOMAIN Traces |-> Verdict(Traces[i])])
=============================================================================
