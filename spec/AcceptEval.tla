----------------------------- MODULE AcceptEval -----------------------------
(* Recorded executions of a real AsyncFIXDummyServer (harness/props/x02.py) against AcceptFn:
   clauses A1..A6 per step, and conformance with Step (the model state is carried along the trace).
   trace = [id, steps]; step = [ev, pre, out, post, newid]; pre/post = [cs, cur, open (list), nin, nout, sock];
   out = [cb, deliv, exc, wrote (list of [c, kind, seq]), closed (list)]. *)
EXTENDS AcceptFn, Json, IOUtils
Traces == JsonDeserialize(IOEnv.TRACE_FILE)
ToSetS(s) == { s[i] : i \in DOMAIN s }
AbsObs(p) == [cs |-> p.cs, cur |-> p.cur, open |-> ToSetS(p.open), nin |-> p.nin, nout |-> p.nout, sock |-> p.sock]
AbsOut(o) == [cb |-> o.cb, deliv |-> o.deliv, exc |-> o.exc,
              wrote |-> [i \in DOMAIN o.wrote |-> [c |-> o.wrote[i].c, kind |-> o.wrote[i].kind, seq |-> o.wrote[i].seq]],
              closed |-> ToSetS(o.closed)]
RECURSIVE Run(_, _, _, _)
Run(tr, i, sv, acc) ==
    IF i > Len(tr.steps) THEN acc
    ELSE LET s == tr.steps[i]
             pre == AbsObs(s.pre)   post == AbsObs(s.post)   out == AbsOut(s.out)
             fl == XFails(pre, s.ev, out, post, s.newid)
             m == Step(sv, s.ev, {})
             mo == ObsSv(m.sv)
             df == (IF mo # post THEN <<"post">> ELSE <<>>) \o (IF m.out.cb # out.cb THEN <<"cb">> ELSE <<>>)
                   \o (IF m.out.wrote # out.wrote THEN <<"wrote">> ELSE <<>>) \o (IF m.out.deliv # out.deliv THEN <<"deliv">> ELSE <<>>)
                   \o (IF m.out.closed # out.closed THEN <<"closed">> ELSE <<>>)
                   \o (IF s.ev.t \in {"start", "send"} /\ m.out.exc # out.exc THEN <<"exc">> ELSE <<>>)
         IN Run(tr, i + 1, m.sv,
                [fails |-> acc.fails \o [k \in DOMAIN fl |-> [step |-> i, clause |-> fl[k]]],
                 drift |-> acc.drift \o (IF df = <<>> THEN <<>> ELSE <<[step |-> i, fields |-> df, model |-> ToJson(mo)]>>),
                 nacc |-> acc.nacc + (IF s.ev.t = "accept" THEN 1 ELSE 0)])
Verdict(tr) == [id |-> tr.id] @@ Run(tr, 1, Sv0, [fails |-> <<>>, drift |-> <<>>, nacc |-> 0])
ASSUME JsonSerialize(IOEnv.OUT_FILE, [i \in DOMAIN Traces |-> Verdict(Traces[i])])
=============================================================================
