--------------------------- MODULE JournalEval ---------------------------
(* Evaluates recorded executions of the real Journaler against Journal.tla (property C13).
   A trace is [id, ops]; every op carries the result the implementation returned.  The
   evaluator folds the reference model over the ops and reports every step whose
   recorded result differs from the model's, with the clause name R_<op>. *)
EXTENDS Journal, Json, IOUtils

Traces == JsonDeserialize(IOEnv.TRACE_FILE)

ToSet(s) == { s[i] : i \in DOMAIN s }

\* st == [j, objs]
Expected(st, o) ==
    CASE o.op = "col" ->
           LET r == CreateOrLoad(st.j, o.t, o.s) IN
           [res |-> r.res, st |-> [j |-> r.j, objs |-> Append(st.objs, r.res)]]
      [] o.op = "sessions" -> [res |-> SessionsOf(st.j), st |-> st]
      [] o.op = "persist" ->
           LET r == Persist(st.j, st.objs[o.so].key, o.dir, o.seq, o.data) IN
           [res |-> r.res, st |-> [st EXCEPT !.j = r.j]]
      [] o.op = "recover" -> [res |-> Recover(st.j, st.objs[o.so].key, o.dir, o.lo, o.hi), st |-> st]
      [] o.op = "recover1" -> [res |-> Recover1(st.j, st.objs[o.so].key, o.dir, o.seq), st |-> st]
      [] o.op = "getall" -> [res |-> GetAll(st.j, ToSet(o.keys), o.dir), st |-> st]
      [] o.op = "setseq" ->
           LET r == SetSeqNum(st.j, st.objs[o.so], o.a, o.b) IN
           [res |-> [r |-> "ok", nout |-> r.so.nout, nin |-> r.so.nin],
            st |-> [j |-> r.j, objs |-> [st.objs EXCEPT ![o.so] = r.so]]]

Same(o, exp) ==
    IF o.op = "sessions" THEN ToSet(o.res) = exp
    ELSE o.res = exp

RECURSIVE Run(_, _, _, _)
Run(ops, i, st, acc) ==
    IF i > Len(ops) THEN acc
    ELSE LET e == Expected(st, ops[i])
             ok == Same(ops[i], e.res)
         IN Run(ops, i + 1, e.st,
                IF ok THEN acc
                ELSE Append(acc, [step |-> i, clause |-> "R_" \o ops[i].op, expected |-> ToJson(e.res)]))

Verdict(tr) == [id |-> tr.id, fails |-> Run(tr.ops, 1, [j |-> EmptyJ, objs |-> <<>>], <<>>)]

ASSUME JsonSerialize(IOEnv.OUT_FILE, [i \in DOMAIN Traces |-> Verdict(Traces[i])])
=============================================================================
