--------------------------- MODULE JournalEval ---------------------------
(* Evaluates recorded executions of the real Journaler against Journal.tla (property C13).
   A trace is [id, ops]; every op carries the result the implementation returned.  The
   evaluator folds the reference model over the ops and reports every step whose
   recorded result differs from the model's, with the clause name R_<op>. *)
EXTENDS Journal, Json, IOUtils

Traces == JsonDeserialize(IOEnv.TRACE_FILE)

Expected(st, o) == ApplyOp(st, o)

Same(o, exp) ==
    IF o.op = "sessions" THEN ToSet(o.res) = exp
    ELSE o.res = exp

RECURSIVE Run(_, _, _, _)
Run(ops, i, st, acc) ==
    IF i > Len(ops) THEN acc
    ELSE LET e == Expected(st, ops[i])
             ok == Same(ops[i], e.res)
         IN Run(ops, i + 1, e.st,
                IF ok THEN acc
                ELSE Append(acc, [step |-> i, clause |-> "R_" \o ops[i].op, expected |-> ToJson(e.res)]))

Verdict(tr) == [id |-> tr.id, fails |-> Run(tr.ops, 1, [j |-> EmptyJ, objs |-> <<>>], <<>>)]

ASSUME JsonSerialize(IOEnv.OUT_FILE, [i \in DOMAIN Traces |-> Verdict(Traces[i])])
=============================================================================
