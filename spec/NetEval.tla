------------------------------ MODULE NetEval ------------------------------
(* Evaluates recorded executions of TWO real endpoints over the fake link
   (harness/netrun.py) against the clauses of properties C07 (Safe, Quiescence) and C09
   (T1 restored counters, T2 no number reuse, T4 no ResendRequest when nothing was lost),
   and checks each endpoint's step against the Endpoint.tla operators (conformance: drift,
   never an alarm).  step = [ev, pre, out, post]; pre/post = [I, A, link, nIA, nAI]. *)
EXTENDS Session1, Json, IOUtils

Traces == JsonDeserialize(IOEnv.TRACE_FILE)

E2 == {"I", "A"}
PeerOf(e) == IF e = "I" THEN "A" ELSE "I"
IsPrefixS(a, b) == Len(a) <= Len(b) /\ \A i \in DOMAIN a : a[i] = b[i]
RangeS(s) == { s[i] : i \in DOMAIN s }
Pos(p, s) == CHOOSE i \in DOMAIN s : s[i] = p
OnlyAccepted(dl, acc) == SelectSeq(dl, LAMBDA p : p \in RangeS(acc))
Skipped(ev) == "skipped" \in DOMAIN ev

SafeOK(h) == \A e \in E2 :
    /\ RangeS(h.delivered[e]) \subseteq RangeS(h.attempts[PeerOf(e)])
    /\ \A i, k \in DOMAIN h.delivered[e] :
          i < k => Pos(h.delivered[e][i], h.attempts[PeerOf(e)]) < Pos(h.delivered[e][k], h.attempts[PeerOf(e)])
    /\ IsPrefixS(OnlyAccepted(h.delivered[e], h.accepted[PeerOf(e)]), h.accepted[PeerOf(e)])
QuietP(p) == p.link = "up" /\ p.nIA = 0 /\ p.nAI = 0 /\ p.I.sock /\ p.A.sock
SyncedP(p, h) ==
    /\ p.I.cs = "ACTIVE" /\ p.A.cs = "ACTIVE"
    /\ OnlyAccepted(h.delivered["A"], h.accepted["I"]) = h.accepted["I"]
    /\ OnlyAccepted(h.delivered["I"], h.accepted["A"]) = h.accepted["A"]
    /\ p.I.nin = p.A.nout /\ p.A.nin = p.I.nout

NewW(w) == { i \in DOMAIN w : ~w[i].pd /\ w[i].kind # "SEQRESET" }
WireOf(e, w) == { <<e, w[i].seq, w[i].kind, w[i].pay, w[i].b>> : i \in NewW(w) }
HasRR(w) == \E i \in DOMAIN w : w[i].kind = "RR"

\* history after a step
NextH(h, s) ==
    LET ev == s.ev
        upw == s.pre.link = "up" \/ ev.t = "reconnect"
        att == IF ev.t = "send" THEN [h.attempts EXCEPT ![ev.e] = Append(@, ev.pay)] ELSE h.attempts
        acc == IF ev.t = "send" /\ s.out[ev.e].exc = "none" THEN [h.accepted EXCEPT ![ev.e] = Append(@, ev.pay)] ELSE h.accepted
        del == [e \in E2 |-> h.delivered[e] \o s.out[e].dpay]
        wir == IF upw THEN h.wire \cup WireOf("I", s.out.I.wrote) \cup WireOf("A", s.out.A.wrote) ELSE h.wire
        lost == \/ (ev.t = "break" /\ ~Skipped(ev) /\ (ev.ki < s.pre.nIA \/ ev.ka < s.pre.nAI))
                \/ (~upw /\ (s.out.I.wrote # <<>> \/ s.out.A.wrote # <<>>))
                \/ (s.pre.link = "up" /\ s.post.link = "down" /\ ev.t \notin {"break", "restart"}
                      /\ (s.pre.nIA + s.pre.nAI > 0 \/ s.post.nIA + s.post.nAI > 0))
    IN [attempts |-> att, accepted |-> acc, delivered |-> del, wire |-> wir,
        clean |-> h.clean /\ ~lost, sawRR |-> h.sawRR \/ HasRR(s.out.I.wrote) \/ HasRR(s.out.A.wrote)]

F(name, ok) == IF ok THEN <<>> ELSE <<name>>
StepFails(h2, s) ==
    LET ev == s.ev IN
       F("Safe", SafeOK(h2))
    \o F("Quiescence", QuietP(s.post) => SyncedP(s.post, h2))
    \o F("Stays", (ev.t \in {"deliver", "send"} /\ ~Skipped(ev) /\ s.pre.link = "up" /\ s.pre.I.sock /\ s.pre.A.sock)
                     => (s.post.I.sock /\ s.post.A.sock))
    \o F("T1", (ev.t = "restart" /\ ~Skipped(ev)) =>
                 (s.post[ev.e].nin = s.pre[ev.e].nin /\ s.post[ev.e].nout = s.pre[ev.e].nout))
    \o F("T2", \A x, y \in h2.wire : (x[1] = y[1] /\ x[2] = y[2]) => x = y)
    \o F("T4", h2.clean => ~h2.sawRR)

\* ---- conformance of each endpoint with Endpoint.tla ----
AbsRow(r) == [seq |-> r.seq, kind |-> r.kind, pd |-> r.pd, gf |-> r.gf, newseq |-> r.newseq, pay |-> r.pay]
AbsFr(w) == [kind |-> w.kind, seq |-> w.seq, pd |-> w.pd, gf |-> w.gf, newseq |-> w.newseq, b |-> w.b, e |-> w.e,
             trid |-> w.trid, pay |-> w.pay, text |-> w.text]
ToEp(p) == [cs |-> p.cs, role |-> p.role, nin |-> p.nin, nout |-> p.nout, maxr |-> p.maxr, treq |-> p.treq,
            last |-> p.last, wasActive |-> p.wasActive, sock |-> p.sock,
            jout |-> [i \in DOMAIN p.jout |-> AbsRow(p.jout[i])], jin |-> p.jin, sin |-> p.sin, sout |-> p.sout,
            wrote |-> <<>>, deliv |-> <<>>, cb |-> <<>>, exc |-> "none"]
Model(e, s) ==
    LET ev == s.ev
        ep == ToEp(s.pre[e])
        up == s.pre.link = "up" /\ ep.sock
    IN CASE Skipped(ev) -> ep
         [] ev.t = "send" /\ ev.e = e -> SendMsg(ep, [Frame("APP", 0) EXCEPT !.pay = ev.pay], up)
         [] ev.t = "deliver" /\ ((ev.dir = "IA" /\ e = "A") \/ (ev.dir = "AI" /\ e = "I")) ->
               IF Disconnected(ep.cs) \/ ~ep.sock THEN ep ELSE Swallow(ProcessMessage(ep, ev.f, ev.now, {}, up))
         [] ev.t = "eof" /\ ev.e = e -> IF ep.sock THEN ReadEOF(ep, FALSE) ELSE ep
         [] ev.t = "reconnect" ->
               IF e = "I" THEN SendMsg(Cb(Attach(ep, "INITIATOR"), "connect"), Frame("LOGON", 0), TRUE)
               ELSE Cb(Attach(ep, "ACCEPTOR"), "connect")
         [] ev.t = "restart" /\ ev.e = e ->
               [NewEndpoint(ep.sin, ep.sout) EXCEPT !.jout = ep.jout, !.jin = ep.jin,
                                                    !.role = IF e = "I" THEN "INITIATOR" ELSE "ACCEPTOR"]
         [] OTHER -> ep
Diff(m, post, out, chkexc) ==
    (IF m.cs # post.cs THEN <<"cs">> ELSE <<>>) \o (IF m.role # post.role THEN <<"role">> ELSE <<>>) \o
    (IF m.nin # post.nin THEN <<"nin">> ELSE <<>>) \o (IF m.nout # post.nout THEN <<"nout">> ELSE <<>>) \o
    (IF m.maxr # post.maxr THEN <<"maxr">> ELSE <<>>) \o (IF m.sin # post.sin THEN <<"sin">> ELSE <<>>) \o
    (IF m.sout # post.sout THEN <<"sout">> ELSE <<>>) \o (IF m.jin # post.jin THEN <<"jin">> ELSE <<>>) \o
    (IF m.jout # [i \in DOMAIN post.jout |-> AbsRow(post.jout[i])] THEN <<"jout">> ELSE <<>>) \o
    (IF m.wrote # [i \in DOMAIN out.wrote |-> AbsFr(out.wrote[i])] THEN <<"wrote">> ELSE <<>>) \o
    (IF m.deliv # out.deliv THEN <<"deliv">> ELSE <<>>) \o
    (IF chkexc /\ m.exc # out.exc THEN <<"exc">> ELSE <<>>)
Drift(s) ==
    LET dI == Diff(Model("I", s), s.post.I, s.out.I, s.ev.t = "send" /\ s.ev.e = "I")
        dA == Diff(Model("A", s), s.post.A, s.out.A, s.ev.t = "send" /\ s.ev.e = "A")
    IN (IF dI = <<>> THEN <<>> ELSE <<[e |-> "I", fields |-> dI]>>) \o (IF dA = <<>> THEN <<>> ELSE <<[e |-> "A", fields |-> dA]>>)

H0 == [attempts |-> [e \in E2 |-> <<>>], accepted |-> [e \in E2 |-> <<>>], delivered |-> [e \in E2 |-> <<>>],
       wire |-> {}, clean |-> TRUE, sawRR |-> FALSE]

RECURSIVE Run(_, _, _, _)
Run(tr, i, h, acc) ==
    IF i > Len(tr.steps) THEN acc @@ [quiet |-> QuietP(tr.steps[Len(tr.steps)].post),
                                      ndelivered |-> Len(h.delivered["I"]) + Len(h.delivered["A"]),
                                      naccepted |-> Len(h.accepted["I"]) + Len(h.accepted["A"])]
    ELSE LET s == tr.steps[i]
             h2 == NextH(h, s)
             fl == StepFails(h2, s)
             df == Drift(s)
         IN Run(tr, i + 1, h2,
                [fails |-> acc.fails \o [k \in DOMAIN fl |-> [step |-> i, clause |-> fl[k]]],
                 drift |-> acc.drift \o [k \in DOMAIN df |-> [step |-> i, e |-> df[k].e, fields |-> df[k].fields]],
                 nquiet |-> acc.nquiet + (IF QuietP(s.post) THEN 1 ELSE 0)])

Verdict(tr) == [id |-> tr.id] @@ (IF tr.steps = <<>> THEN [fails |-> <<>>, drift |-> <<>>, nquiet |-> 0, quiet |-> FALSE, ndelivered |-> 0, naccepted |-> 0]
                                  ELSE Run(tr, 1, H0, [fails |-> <<>>, drift |-> <<>>, nquiet |-> 0]))

ASSUME JsonSerialize(IOEnv.OUT_FILE, [i \in DOMAIN Traces |-> Verdict(Traces[i])])
=============================================================================
