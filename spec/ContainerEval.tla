---------------------------- MODULE ContainerEval ----------------------------
(* C18 on the real FIXMessage / FIXContainer: the evaluator folds the reference model over the
   recorded operations and compares every result and the container content after every
   operation ("unspecified" results are skipped). *)
EXTENDS Container, Json, IOUtils
Traces == JsonDeserialize(IOEnv.TRACE_FILE)
ListOp(o) == o.op \in {"glist", "gindex", "gtag"}
ResOK(o, exp) ==
    IF ListOp(o) THEN (exp.err = "unspecified" \/ (o.res.err = exp.err /\ (exp.err = "" => o.res.items = exp.items)))
    ELSE (exp = "unspecified" \/ o.res = exp)
RECURSIVE Run(_, _, _, _)
Run(ops, i, c, acc) ==
    IF i > Len(ops) THEN acc
    ELSE LET o == ops[i]
             e == ApplyOp(c, o)
             unspec == IF ListOp(o) THEN e.res.err = "unspecified" ELSE e.res = "unspecified"
             \* after an unspecified mutator the model follows the implementation
             c2 == IF unspec THEN o.cont ELSE e.c
             f1 == IF ResOK(o, e.res) THEN <<>> ELSE <<[step |-> i, clause |-> "R_" \o o.op, expected |-> ToJson(e.res)]>>
             f2 == IF unspec \/ o.cont = e.c THEN <<>> ELSE <<[step |-> i, clause |-> "C_content_after_" \o o.op, expected |-> ToJson(e.c)]>>
         IN Run(ops, i + 1, c2, acc \o f1 \o f2)
Verdict(tr) == [id |-> tr.id, fails |-> Run(tr.ops, 1, <<>>, <<>>)]
ASSUME JsonSerialize(IOEnv.OUT_FILE, [i \in DOMAIN Traces |-> Verdict(Traces[i])])
=============================================================================
