---------------------------- MODULE ReconnectEval ----------------------------
(* Recorded executions of the real AsyncFIXClient (harness/props/x01.py) against ReconnectFn:
   clauses Q1..Q6 per step with the monitor history, and conformance with Step (the model state
   is carried along the trace because `last_connect` and the wake-up time are not observable).
   trace = [id, H, steps]; step = [ev, pre, out, post], pre/post = [cs, sock, up]. *)
EXTENDS ReconnectFn, Json, IOUtils
Traces == JsonDeserialize(IOEnv.TRACE_FILE)
F(name, ok) == IF ok THEN <<>> ELSE <<name>>
Obs(rc) == [cs |-> rc.cs, sock |-> rc.sock, up |-> rc.up]
RECURSIVE Run(_, _, _, _, _)
Run(tr, i, rc, mon, acc) ==
    IF i > Len(tr.steps) THEN acc
    ELSE LET s == tr.steps[i]
             mon2 == NextMon(mon, s.pre, s.ev, s.out, s.post)
             fl == F("Q1", Q1(s.pre, s.ev, s.out)) \o F("Q2", Q2(mon, s.ev, s.out, tr.H)) \o F("Q3", Q3(mon2, s.ev, s.post, tr.H))
                \o F("Q4", Q4(s.pre, s.ev, s.out, s.post)) \o F("Q5", Q5(s.pre, s.ev, s.out, s.post)) \o F("Q6", Q6(s.pre, s.ev, s.out, s.post))
             m == Step(rc, s.ev, tr.H)
             df == (IF Obs(m.rc) # s.post THEN <<"post">> ELSE <<>>) \o (IF m.out.att # s.out.att THEN <<"att">> ELSE <<>>)
                   \o (IF m.out.cb # s.out.cb THEN <<"cb">> ELSE <<>>) \o (IF m.out.exc # s.out.exc THEN <<"exc">> ELSE <<>>)
         IN Run(tr, i + 1, m.rc, mon2,
                [fails |-> acc.fails \o [k \in DOMAIN fl |-> [step |-> i, clause |-> fl[k]]],
                 drift |-> acc.drift \o (IF df = <<>> THEN <<>> ELSE <<[step |-> i, fields |-> df]>>),
                 natt |-> acc.natt + s.out.att])
Verdict(tr) == [id |-> tr.id] @@ Run(tr, 1, Rc0, Mon0, [fails |-> <<>>, drift |-> <<>>, natt |-> 0])
ASSUME JsonSerialize(IOEnv.OUT_FILE, [i \in DOMAIN Traces |-> Verdict(Traces[i])])
=============================================================================
