------------------------------ MODULE WireEval ------------------------------
(* Byte-level evaluation of recorded observations with the independent grammar of Wire.tla.
   Record kinds:
     "frame"  [id, kind, bytes]                       C02: bytes handed to the transport / produced by the
                                                     encoder must be a well-formed frame
     "send"   [id, kind, bytes, exc]                  C02: a message that cannot be represented is refused
                                                     (exception, nothing written) or what is written is well formed
     "decode" [id, kind, buf, calls, terminated, orig] C10: repeated Codec.decode(silent=True) over buf;
                                                     calls[i] = [exc, msg, consumed, raw, rem] (rem = buffer before the call)
     "live"   [id, kind, expect, deliv, buflen]       C10 P5 / C03: deliveries of the live reader *)
EXTENDS Wire, Json, IOUtils

Traces == JsonDeserialize(IOEnv.TRACE_FILE)
F(name, ok) == IF ok THEN <<>> ELSE <<name>>
IsSliceAtMarker(raw, rem) ==
    LET m == FirstMarker(rem) IN m > 0 /\ m + Len(raw) - 1 <= Len(rem) /\ SubSeq(rem, m, m + Len(raw) - 1) = raw
CallFails(c) ==
       F("P1_never_raises", c.exc = "none")
    \o (IF c.exc # "none" THEN <<>>
        ELSE F("P2_consumed_range", c.consumed >= 0 /\ c.consumed <= Len(c.rem))
          \o (IF c.msg THEN ConsistencyDefects(c.raw) \o F("P3_raw_is_buffer_slice", IsSliceAtMarker(c.raw, c.rem)) ELSE <<>>))
RECURSIVE AllCalls(_, _)
AllCalls(cs, i) == IF i > Len(cs) THEN <<>> ELSE CallFails(cs[i]) \o AllCalls(cs, i + 1)
\* the first frame of the buffer declares (numerically) a BodyLength reaching beyond the end of the buffer
DeclaresMoreThanPresent(b) ==
    LET m == FirstMarker(b) IN
    IF m = 0 THEN FALSE
    ELSE LET r == SubSeq(b, m, Len(b))
             S == { i \in DOMAIN r : r[i] = SOHb } IN
         IF Cardinality(S) < 2 THEN FALSE
         ELSE LET s1 == CHOOSE i \in S : \A x \in S : i <= x
                  s2 == CHOOSE i \in S \ {s1} : \A x \in S \ {s1} : i <= x
                  lf == SubSeq(r, s1 + 1, s2 - 1)
              IN Len(lf) >= 3 /\ lf[1] = 57 /\ lf[2] = EQb /\ AllDigits(SubSeq(lf, 3, Len(lf))) /\ Len(lf) <= 11
                 /\ s2 + ToNat(SubSeq(lf, 3, Len(lf)), 1, 0) + 7 > Len(r)
\* known-finding trigger: a returned frame whose only defect is a BodyLength that differs from its byte count
LaxBodyLength(c) == c.exc = "none" /\ c.msg /\ ConsistencyDefects(c.raw) = <<"P3_bodylength_value">>
Verdict(r) ==
    CASE r.kind = "frame" -> [id |-> r.id, fails |-> FrameDefects(r.bytes), trigs |-> <<>>]
      [] r.kind = "send" -> [id |-> r.id, trigs |-> <<>>,
                             fails |-> IF r.bytes = <<>> THEN F("R_refused_with_error", r.exc # "none")
                                       ELSE FrameDefects(r.bytes)]
      [] r.kind = "decode" ->
            [id |-> r.id,
             fails |-> AllCalls(r.calls, 1) \o F("P2_terminates", r.terminated)
                       \* P5: the valid frames that follow the malformed input in the same buffer are all returned
                       \* (not demanded when the malformed frame declares a BodyLength that has not arrived yet)
                       \o F("P5_following_frames_returned",
                            DeclaresMoreThanPresent(r.buf) \/
                            \A k \in DOMAIN r.follow : \E i \in DOMAIN r.calls : r.calls[i].exc = "none" /\ r.calls[i].msg /\ r.calls[i].raw = r.follow[k]),
             trigs |-> IF \E i \in DOMAIN r.calls : LaxBodyLength(r.calls[i]) THEN <<"Trig_LaxBodyLength">> ELSE <<>>]
      [] r.kind = "reads" ->     \* C03: after every read the frames that have completely arrived are journaled / delivered
            LET arrived(p) == Cardinality({ i \in DOMAIN r.ends : r.ends[i] <= p })
                bad == { i \in DOMAIN r.reads : r.reads[i].n # arrived(r.reads[i].pos) }
            IN [id |-> r.id, trigs |-> <<>>,
                fails |-> F("ChunkIndependence", bad = {}) \o F("AllDeliveredInOrder", r.deliv = r.expect)
                          \o F("BufferDrained", r.buflen = r.tail)]
      [] r.kind = "live" ->
            [id |-> r.id, trigs |-> <<>>,
             fails |-> F("P5_following_frames_delivered", r.deliv = r.expect) \o F("P5_buffer_drained", r.buflen = 0)]
ASSUME JsonSerialize(IOEnv.OUT_FILE, [i \in DOMAIN Traces |-> Verdict(Traces[i])])
=============================================================================
