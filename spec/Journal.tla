----------------------------- MODULE Journal -----------------------------
(***************************************************************************)
(* Reference model of asyncfix.journaler.Journaler (SQLite journal).       *)
(*                                                                         *)
(* A journal is  [sess : Seq([t, s, out, inn]),  rows : Seq([seq,key,dir,  *)
(* data])].  The index of a session in `sess` is its database key          *)
(* (AUTOINCREMENT, sessions are never deleted); `rows` is kept in rowid    *)
(* (= insertion) order because get_all_msgs orders by rowid.  `out`/`inn`  *)
(* are the stored "last used" numbers (next number minus one).             *)
(*                                                                         *)
(* A live session object (what create_or_load returns and what the         *)
(* connection keeps) is a record [key, nout, nin]; set_seq_num mutates it, *)
(* persist_msg does not.                                                   *)
(*                                                                         *)
(* Every public method is an operator returning [res |-> result,           *)
(* j |-> successor journal(, so |-> successor session object)].            *)
(* The statement-level operators (InsSess, InsMsg, Upd*, DelFrom) are what *)
(* JournalTx.tla places crash points between.                              *)
(***************************************************************************)
EXTENDS Integers, Sequences, FiniteSets, TLC

EmptyJ == [sess |-> <<>>, rows |-> <<>>]

SessKey(j, t, s) ==
    IF \E k \in DOMAIN j.sess : j.sess[k].t = t /\ j.sess[k].s = s
    THEN CHOOSE k \in DOMAIN j.sess : j.sess[k].t = t /\ j.sess[k].s = s
    ELSE 0

HasRow(j, key, dir, seq) ==
    \E i \in DOMAIN j.rows : j.rows[i].key = key /\ j.rows[i].dir = dir /\ j.rows[i].seq = seq

(* ---- SQL statements ---------------------------------------------------- *)
InsSessOK(j, t, s) == SessKey(j, t, s) = 0
InsSess(j, t, s) == [j EXCEPT !.sess = Append(@, [t |-> t, s |-> s, out |-> 0, inn |-> 0])]
InsMsgOK(j, key, dir, seq) == ~HasRow(j, key, dir, seq)
InsMsg(j, key, dir, seq, data) ==
    [j EXCEPT !.rows = Append(@, [seq |-> seq, key |-> key, dir |-> dir, data |-> data])]
UpdOut(j, key, v) == IF key \in DOMAIN j.sess THEN [j EXCEPT !.sess[key].out = v] ELSE j
UpdIn(j, key, v) == IF key \in DOMAIN j.sess THEN [j EXCEPT !.sess[key].inn = v] ELSE j
UpdBoth(j, key, vin, vout) == UpdOut(UpdIn(j, key, vin), key, vout)
DelFrom(j, key, dir, n) ==
    [j EXCEPT !.rows = SelectSeq(@, LAMBDA r : ~(r.key = key /\ r.dir = dir /\ r.seq >= n))]

(* ---- public methods ---------------------------------------------------- *)
\* create_or_load(target, sender)
CreateOrLoad(j, t, s) ==
    IF InsSessOK(j, t, s)
    THEN LET j1 == InsSess(j, t, s) IN
         [res |-> [key |-> Len(j1.sess), nout |-> 1, nin |-> 1], j |-> j1]
    ELSE LET k == SessKey(j, t, s) IN
         [res |-> [key |-> k, nout |-> j.sess[k].out + 1, nin |-> j.sess[k].inn + 1], j |-> j]

\* sessions(): every stored session with its *next* numbers.  The two load paths must agree.
SessionsOf(j) ==
    { [key |-> k, t |-> j.sess[k].t, s |-> j.sess[k].s,
       nout |-> j.sess[k].out + 1, nin |-> j.sess[k].inn + 1] : k \in DOMAIN j.sess }

\* persist_msg(bytes, session, direction); seq is the number found in the bytes
Persist(j, key, dir, seq, data) ==
    IF InsMsgOK(j, key, dir, seq)
    THEN LET j1 == InsMsg(j, key, dir, seq, data)
             j2 == IF dir = "out" THEN UpdOut(j1, key, seq) ELSE UpdIn(j1, key, seq)
         IN [res |-> "ok", j |-> j2]
    ELSE [res |-> "dup", j |-> j]

\* rows of one session and direction within [lo, hi], ascending by number
RECURSIVE SortBySeq(_)
SortBySeq(S) ==
    IF S = {} THEN <<>>
    ELSE LET m == CHOOSE r \in S : \A q \in S : r.seq <= q.seq
         IN <<m>> \o SortBySeq(S \ {m})

RowSet(j, key, dir, lo, hi) ==
    { j.rows[i] : i \in { i \in DOMAIN j.rows :
          j.rows[i].key = key /\ j.rows[i].dir = dir /\ j.rows[i].seq >= lo /\ j.rows[i].seq <= hi } }

\* recover_messages(session, direction, lo, hi)
Recover(j, key, dir, lo, hi) ==
    LET srt == SortBySeq(RowSet(j, key, dir, lo, hi)) IN [i \in DOMAIN srt |-> srt[i].data]

\* recover_msg(session, direction, n)
Recover1(j, key, dir, n) ==
    LET r == Recover(j, key, dir, n, n) IN IF r = <<>> THEN "none" ELSE r[1]

\* get_all_msgs(sessions, direction): keys = set of keys or {} for "no filter", dir = "any" for no filter
GetAll(j, keys, dir) ==
    SelectSeq(j.rows, LAMBDA r : (keys = {} \/ r.key \in keys) /\ (dir = "any" \/ r.dir = dir))

\* set_seq_num(session, next_num_out = a, next_num_in = b); 0 stands for None.
\* Returns the mutated session object as well.
SetSeqNum(j, so, a, b) ==
    LET nout == IF a = 0 THEN so.nout ELSE a
        nin  == IF b = 0 THEN so.nin ELSE b
        j1 == UpdBoth(j, so.key, nin - 1, nout - 1)
        j2 == DelFrom(j1, so.key, "in", nin)
        j3 == DelFrom(j2, so.key, "out", nout)
    IN [res |-> "ok", j |-> j3, so |-> [so EXCEPT !.nout = nout, !.nin = nin]]


(* ---- one operation applied to [j, objs] (objs = live session objects); shared by the
        evaluators and by JournalTx ---- *)
ToSet(s) == { s[i] : i \in DOMAIN s }
ApplyOp(st, o) ==
    CASE o.op = "col" ->
           LET r == CreateOrLoad(st.j, o.t, o.s) IN
           [res |-> r.res, st |-> [j |-> r.j, objs |-> Append(st.objs, r.res)]]
      [] o.op = "sessions" -> [res |-> SessionsOf(st.j), st |-> st]
      [] o.op = "persist" ->
           LET r == Persist(st.j, st.objs[o.so].key, o.dir, o.seq, o.data) IN
           [res |-> r.res, st |-> [st EXCEPT !.j = r.j]]
      [] o.op = "recover" -> [res |-> Recover(st.j, st.objs[o.so].key, o.dir, o.lo, o.hi), st |-> st]
      [] o.op = "recover1" -> [res |-> Recover1(st.j, st.objs[o.so].key, o.dir, o.seq), st |-> st]
      [] o.op = "getall" -> [res |-> GetAll(st.j, ToSet(o.keys), o.dir), st |-> st]
      [] o.op = "setseq" ->
           LET r == SetSeqNum(st.j, st.objs[o.so], o.a, o.b) IN
           [res |-> [r |-> "ok", nout |-> r.so.nout, nin |-> r.so.nin],
            st |-> [j |-> r.j, objs |-> [st.objs EXCEPT ![o.so] = r.so]]]
St0 == [j |-> EmptyJ, objs |-> <<>>]
RECURSIVE ApplyAll(_, _, _)
ApplyAll(ops, i, st) == IF i > Len(ops) THEN st ELSE ApplyAll(ops, i + 1, ApplyOp(st, ops[i]).st)

(* ---- the laws of property C13, stated on the model (checked by TLC in JournalMC) ---- *)
UniqueRows(j) ==
    \A a, b \in DOMAIN j.rows :
        (j.rows[a].key = j.rows[b].key /\ j.rows[a].dir = j.rows[b].dir /\ j.rows[a].seq = j.rows[b].seq) => a = b
UniqueSessions(j) ==
    \A a, b \in DOMAIN j.sess : (j.sess[a].t = j.sess[b].t /\ j.sess[a].s = j.sess[b].s) => a = b
LoadPathsAgree(j) ==
    \A x \in SessionsOf(j) :
        LET c == CreateOrLoad(j, x.t, x.s).res IN c.key = x.key /\ c.nout = x.nout /\ c.nin = x.nin
=============================================================================
