--------------------------- MODULE SendConcEval ---------------------------
(* C14 on real executions: one record per explored schedule of the real code
   (harness/conc.py): the wire (frames in transport order), results of the sender tasks,
   final journal and counters.  Clauses S1-S5 of SendConc.tla; `known` = the set of wires
   TLC found reachable in the SendConc model for the same task set (conformance: drift). *)
EXTENDS SendConcProps, Json, IOUtils, TLC

Traces == JsonDeserialize(IOEnv.TRACE_FILE)
F(name, ok) == IF ok THEN <<>> ELSE <<name>>
AbsW(w) == [i \in DOMAIN w |-> [kind |-> w[i].kind, seq |-> w[i].seq, pd |-> w[i].pd, pay |-> w[i].pay, newseq |-> w[i].newseq]]
RowShaOK(w, j) == \A i \in NewIdx(w) :
    \E k \in DOMAIN j : j[k].seq = w[i].seq /\ j[k].sha = w[i].sha
Verdict(tr) ==
    LET w == tr.wire
        rs == [i \in DOMAIN tr.results |-> tr.results[i].exc]
        fl == F("S1", S1w(w, tr.first)) \o F("S2", S2w(w)) \o F("S6", S6w(w))
           \o F("S3", Len(tr.results) = tr.expected_tasks /\ \A i \in DOMAIN rs : rs[i] \in {"none", "FIXConnectionError"})
           \o F("S4", RowShaOK(w, tr.jout))
           \o F("S5", S5c(w, tr.first, tr.sout) /\ tr.nout = tr.sout)
    IN [id |-> tr.id, fails |-> fl, wire |-> ToJson(AbsW(w)), nnew |-> Cardinality(NewIdx(w))]
ASSUME JsonSerialize(IOEnv.OUT_FILE, [i \in DOMAIN Traces |-> Verdict(Traces[i])])
=============================================================================
