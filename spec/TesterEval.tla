----------------------------- MODULE TesterEval -----------------------------
(* C20: traces of one order driven through FIXTester.  step = [kind, ...]:
     "report"  [ord (attributes before), a (arguments), refused (helper raised AssertionError), tree (fabricated
               message as a tree), r (its quantities in units, os), execid, orderid, processed ("none" | "skipped" | "exc:..")]
     "reject"  [tree, processed]            fix_cxlrep_reject_msg
     "session" [mt, tree]                   msg_* factories
     "accept"  [a, b]                       part (b): projections of the initiator against the helper's acceptor and a real one
   H1 uses SchemaValid!Valid over the independently translated FIX44 dictionary. *)
EXTENDS Tester, SchemaValid
Traces == JsonDeserialize(IOEnv.TRACE_FILE)
Fc(n, ok) == IF ok THEN <<>> ELSE <<n>>
RECURSIVE Run(_, _, _, _, _)
Run(steps, i, execs, oids, acc) ==
    IF i > Len(steps) THEN acc
    ELSE LET s == steps[i] IN
         IF s.kind = "report"
         THEN LET ha == HelperAccepts(s.ord, s.a)
                  fl == IF s.refused THEN <<>>
                        ELSE Fc("H1_report_valid", Valid("8", s.tree) # "no") \o Fc("H2_quantities", H2(s.r))
                          \o Fc("H3_fresh_execid", H3(s.execid, execs)) \o Fc("H4_stable_orderid", H4(s.orderid, oids))
                          \o Fc("H5_processed_without_error", s.processed \in {"none", "skipped"})
                  dr == IF ha = ~s.refused THEN <<>> ELSE <<i>>
              IN Run(steps, i + 1, IF s.refused THEN execs ELSE execs \cup {s.execid}, IF s.refused THEN oids ELSE oids \cup {s.orderid},
                     [fails |-> acc.fails \o [k \in DOMAIN fl |-> [step |-> i, clause |-> fl[k]]], drift |-> acc.drift \o dr, n |-> acc.n + (IF s.refused THEN 0 ELSE 1)])
         ELSE LET fl == IF s.kind = "reject" THEN Fc("H1_reject_valid", Valid("9", s.tree) # "no") \o Fc("H5_processed_without_error", s.processed = "none")
                        ELSE IF s.kind = "session" THEN Fc("H1_session_msg_valid", Valid(s.mt, s.tree) # "no")
                        ELSE Fc("ACC_same_as_real_acceptor", s.a = s.b)
              IN Run(steps, i + 1, execs, oids, [fails |-> acc.fails \o [k \in DOMAIN fl |-> [step |-> i, clause |-> fl[k]]], drift |-> acc.drift, n |-> acc.n + 1])
\* several orders registered with one helper, reports fabricated in any interleaving: step = [o (order index), orderid, execid]
MultiVerdict(tr) ==
    LET st == tr.steps
        bad(P(_, _)) == {i \in DOMAIN st : \E j \in DOMAIN st : j < i /\ P(st[j], st[i])}
        stable == bad(LAMBDA a, b : a.o = b.o /\ a.orderid # b.orderid)
        ident == bad(LAMBDA a, b : a.o # b.o /\ a.orderid = b.orderid)
        fresh == bad(LAMBDA a, b : a.execid = b.execid)
        first(S) == CHOOSE i \in S : \A j \in S : i <= j
    IN [id |-> tr.id, drift |-> <<>>, n |-> Len(st),
        fails |-> (IF stable = {} THEN <<>> ELSE <<[step |-> first(stable), clause |-> "H4_stable_orderid"]>>)
               \o (IF ident = {} THEN <<>> ELSE <<[step |-> first(ident), clause |-> "H4_orderid_identifies_order"]>>)
               \o (IF fresh = {} THEN <<>> ELSE <<[step |-> first(fresh), clause |-> "H3_fresh_execid"]>>)]
Verdict(tr) == IF "multi" \in DOMAIN tr THEN MultiVerdict(tr)
               ELSE [id |-> tr.id] @@ Run(tr.steps, 1, {}, {}, [fails |-> <<>>, drift |-> <<>>, n |-> 0])
ASSUME JsonSerialize(IOEnv.OUT_FILE, [i \in DOMAIN Traces |-> Verdict(Traces[i])])
=============================================================================
