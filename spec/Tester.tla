------------------------------- MODULE Tester -------------------------------
(***************************************************************************)
(* The bundled test helper (asyncfix/fix_tester.py), property C20 part (a):*)
(*   HelperAccepts(ord, a)  the helper's own argument assertions for       *)
(*                          fix_exec_report_msg, transcribed               *)
(*   report clauses H1-H5 on what it fabricates                            *)
(* ord = [st, clord, orig, qty, cum, leaves, px]   (order attributes)      *)
(* a   = [et, os, cum, leaves, last, px, qty] with -1 standing for "not    *)
(*        given" (nan) for the numeric arguments; quantities in units      *)
(***************************************************************************)
EXTENDS Integers, Sequences, FiniteSets, TLC

FinishedSt == {"2", "4", "8", "C"}
Given(x) == x # -1
HelperAccepts(ord, a) ==
    LET oq == IF Given(a.qty) THEN a.qty ELSE ord.qty
        cq == IF Given(a.cum) THEN a.cum ELSE ord.cum
        lq == IF Given(a.leaves) THEN a.leaves ELSE ord.leaves
    IN /\ (Given(a.qty) => a.et = "5" /\ a.qty > 0)
       /\ (Given(a.cum) => a.cum <= ord.qty /\ a.cum >= 0)
       /\ (Given(a.leaves) => a.leaves >= 0 /\ a.leaves <= oq)
       /\ cq + lq <= oq
       /\ (Given(a.last) => a.et = "F" /\ a.last > 0 /\ a.last = cq - ord.cum)
       /\ (~Given(a.last) => a.et # "F")
       /\ (Given(a.px) => a.et = "5")
       /\ ((a.et = "6" /\ a.os = "6") => ord.orig # "" /\ ord.clord # ord.orig /\ ord.cum = cq /\ ord.leaves = lq)
       /\ (a.os \in FinishedSt => lq = 0)
\* what the fabricated report must look like (r = observed report fields, in units)
H2(r) == r.cum + r.leaves <= r.qty /\ (r.os \in FinishedSt => r.leaves = 0)
H3(execid, earlier) == execid \notin earlier
H4(orderid, earlierIds) == earlierIds = {} \/ earlierIds = {orderid}
=============================================================================
