------------------------------- MODULE Wire -------------------------------
(***************************************************************************)
(* The FIX tag=value frame grammar at byte level, over b \in Seq(0..255).  *)
(* This is the "independent FIX parser" of properties C02 / C10 / C01: it  *)
(* shares nothing with asyncfix.codec.                                     *)
(*                                                                         *)
(*   Toks(b)              the SOH-terminated tokens of b                   *)
(*   WellFormedFrame(b)   C02: BeginString, BodyLength, MsgType first,     *)
(*                        three-digit CheckSum last, BodyLength = byte     *)
(*                        count, CheckSum = byte sum mod 256, every field  *)
(*                        digits=non-empty-value                           *)
(*   FrameConsistent(b)   C10: weaker - exactly what the decoder must have *)
(*                        verified before returning a message              *)
(*   Fields(b)            <<tag, value>> pairs as strings of byte lists    *)
(***************************************************************************)
EXTENDS Integers, Sequences, FiniteSets, TLC

SOHb == 1
EQb == 61
IsDigit(x) == x >= 48 /\ x <= 57
BeginStringBytes == <<70, 73, 88, 46, 52, 46, 52>>       \* "FIX.4.4"

RECURSIVE SumBytes(_, _, _)
SumBytes(b, i, j) == IF i > j THEN 0 ELSE b[i] + SumBytes(b, i + 1, j)
RECURSIVE ToNat(_, _, _)
ToNat(d, i, acc) == IF i > Len(d) THEN acc ELSE ToNat(d, i + 1, acc * 10 + (d[i] - 48))
AllDigits(d) == d # <<>> /\ \A i \in DOMAIN d : IsDigit(d[i])

SohPos(b) == { i \in DOMAIN b : b[i] = SOHb }
\* k-th SOH position (1-based), as a function built once
SohSeq(b) == LET S == SohPos(b) IN [k \in 1..Cardinality(S) |-> CHOOSE i \in S : Cardinality({ x \in S : x < i }) = k - 1]
\* token k = bytes between SOH k-1 and SOH k (exclusive)
TokStart(ss, k) == IF k = 1 THEN 1 ELSE ss[k - 1] + 1
TokEnd(ss, k) == ss[k] - 1
Tok(b, ss, k) == SubSeq(b, TokStart(ss, k), TokEnd(ss, k))
EqPos(t) == IF \E i \in DOMAIN t : t[i] = EQb THEN CHOOSE i \in DOMAIN t : t[i] = EQb /\ \A x \in 1..(i - 1) : t[x] # EQb ELSE 0
TagOf(t) == SubSeq(t, 1, EqPos(t) - 1)
ValOf(t) == SubSeq(t, EqPos(t) + 1, Len(t))
FieldOK(t) == EqPos(t) > 1 /\ AllDigits(TagOf(t)) /\ ValOf(t) # <<>>
TagIs(t, n) == EqPos(t) > 1 /\ AllDigits(TagOf(t)) /\ ToNat(TagOf(t), 1, 0) = n /\ TagOf(t)[1] # 48

\* names of the C02 clauses that fail on b (<<>> = well formed)
FrameDefects(b) ==
    IF b = <<>> \/ b[Len(b)] # SOHb THEN <<"F_terminated">>
    ELSE
    LET ss == SohSeq(b)
        n == Len(ss)
    IN IF n < 4 THEN <<"F_minimum_fields">>
       ELSE
       LET t1 == Tok(b, ss, 1)  t2 == Tok(b, ss, 2)  t3 == Tok(b, ss, 3)  tl == Tok(b, ss, n)
           f_fields == \A k \in 1..n : FieldOK(Tok(b, ss, k))
           f_begin == TagIs(t1, 8) /\ ValOf(t1) = BeginStringBytes
           f_len == TagIs(t2, 9) /\ AllDigits(ValOf(t2))
           f_type == TagIs(t3, 35) /\ ValOf(t3) # <<>>
           f_trail == TagIs(tl, 10) /\ Len(ValOf(tl)) = 3 /\ AllDigits(ValOf(tl))
           bodyStart == ss[2] + 1
           trailStart == TokStart(ss, n)
           f_bodylen == f_len => ToNat(ValOf(t2), 1, 0) = trailStart - bodyStart
           f_cksum == f_trail => ToNat(ValOf(tl), 1, 0) = SumBytes(b, 1, trailStart - 1) % 256
           F(name, ok) == IF ok THEN <<>> ELSE <<name>>
       IN F("F_fields", f_fields) \o F("F_beginstring", f_begin) \o F("F_bodylength_field", f_len)
          \o F("F_msgtype", f_type) \o F("F_checksum_field", f_trail) \o F("F_bodylength_value", f_bodylen)
          \o F("F_checksum_value", f_cksum)
WellFormedFrame(b) == FrameDefects(b) = <<>>

\* C10: what must hold of the bytes of any message the decoder returns
ConsistencyDefects(b) ==
    IF b = <<>> \/ b[Len(b)] # SOHb THEN <<"P3_terminated">>
    ELSE
    LET ss == SohSeq(b)
        n == Len(ss)
    IN IF n < 3 THEN <<"P3_minimum_fields">>
       ELSE
       LET t1 == Tok(b, ss, 1)  t2 == Tok(b, ss, 2)  tl == Tok(b, ss, n)
           okb == TagIs(t1, 8) /\ ValOf(t1) = BeginStringBytes
           okl == TagIs(t2, 9) /\ AllDigits(ValOf(t2))
           okt == TagIs(tl, 10) /\ Len(ValOf(tl)) = 3 /\ AllDigits(ValOf(tl))
           bodyStart == ss[2] + 1
           trailStart == TokStart(ss, n)
           F(name, ok) == IF ok THEN <<>> ELSE <<name>>
       IN F("P3_beginstring", okb) \o F("P3_bodylength_field", okl) \o F("P3_checksum_field", okt)
          \o F("P3_bodylength_value", okl => ToNat(ValOf(t2), 1, 0) = trailStart - bodyStart)
          \o F("P3_checksum_value", okt => ToNat(ValOf(tl), 1, 0) = SumBytes(b, 1, trailStart - 1) % 256)
FrameConsistent(b) == ConsistencyDefects(b) = <<>>

\* all fields as <<tag bytes, value bytes>>
Fields(b) == LET ss == SohSeq(b) IN [k \in 1..Len(ss) |-> <<TagOf(Tok(b, ss, k)), ValOf(Tok(b, ss, k))>>]

\* first position of the frame-start marker "8=FIX." in b, 0 if none
Marker == <<56, 61, 70, 73, 88, 46>>
MarkerAt(b, i) == i + 5 <= Len(b) /\ SubSeq(b, i, i + 5) = Marker
FirstMarker(b) == IF \E i \in DOMAIN b : MarkerAt(b, i) THEN CHOOSE i \in DOMAIN b : MarkerAt(b, i) /\ \A x \in 1..(i - 1) : ~MarkerAt(b, x) ELSE 0
=============================================================================
