--------------------------- MODULE SendConcProps ---------------------------
(* Property C14 as predicates over the wire (frames in transport order), the outbound
   journal, the results of the sender tasks and the stored counter. *)
EXTENDS Integers, Sequences, FiniteSets

JHasC(j, n) == \E i \in DOMAIN j : j[i].seq = n
JRowC(j, n) == j[CHOOSE i \in DOMAIN j : j[i].seq = n]
(* ---- C14 clauses over the wire, the journal and the results ---- *)
NewIdx(w) == { i \in DOMAIN w : ~w[i].pd /\ w[i].kind # "SEQRESET" }
\* S1 new messages: strictly increasing, gap-free numbers in wire order
S1w(w, first) ==
    LET idx == NewIdx(w) IN
    \A i \in idx : w[i].seq = first + Cardinality({ k \in idx : k < i })
\* S2 a number appears twice only if the later occurrences are retransmissions / gap fills of it
S2w(w) == \A i, k \in DOMAIN w : (i < k /\ w[i].seq = w[k].seq) => (w[k].pd \/ w[k].kind = "SEQRESET")
\* S6 only retransmissions reuse a number: a gap fill never stands in for (covers the number of) a new application message
\*    that is on the wire - the peer would skip that message for good
S6w(w) == \A g, i \in DOMAIN w :
             (w[g].kind = "SEQRESET" /\ w[g].gf /\ i \in NewIdx(w) /\ w[i].kind = "APP") =>
                 ~(w[g].seq <= w[i].seq /\ w[i].seq < w[g].newseq)
S3r(r) == \A t \in DOMAIN r : r[t] \in {"none", "FIXConnectionError"}
S4j(w, j) == \A i \in NewIdx(w) : JHasC(j, w[i].seq) /\ JRowC(j, w[i].seq).pay = w[i].pay /\ JRowC(j, w[i].seq).kind = w[i].kind
S5c(w, first, sout) == LET idx == NewIdx(w) IN sout = first + Cardinality(idx)

=============================================================================
