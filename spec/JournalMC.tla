---------------------------- MODULE JournalMC ----------------------------
(* Bounded exhaustive exploration of the journal reference model: every reachable
   journal x every mutating operation.  TLC checks the C13 laws on the model and prints
   each explored transition; the harness replays every transition on a real Journaler. *)
EXTENDS Journal, Json

CONSTANTS MaxRows, MaxObjs, Seqs, SetVals, Dump
VARIABLES j, objs, hist   \* hist: the operations applied so far (hidden by VIEW)
vars == <<j, objs, hist>>
ev == IF hist = <<>> THEN [op |-> "init"] ELSE hist[Len(hist)]

Pairs == { <<"T", "S">>, <<"S", "T">>, <<"T", "SS">> }   \* a mirror pair and a shared-prefix id
Dirs == {"in", "out"}
Datas == {"a", "b"}

Init == j = EmptyJ /\ objs = <<>> /\ hist = <<>>

Col == \E p \in Pairs :
          /\ Len(objs) < MaxObjs
          /\ LET r == CreateOrLoad(j, p[1], p[2]) IN
             /\ j' = r.j /\ objs' = Append(objs, r.res)
             /\ hist' = Append(hist, [op |-> "col", t |-> p[1], s |-> p[2]])
Pers == \E so \in DOMAIN objs, d \in Dirs, n \in Seqs, x \in Datas :
          /\ Len(j.rows) < MaxRows \/ HasRow(j, objs[so].key, d, n)
          /\ LET r == Persist(j, objs[so].key, d, n, x) IN
             /\ j' = r.j /\ UNCHANGED objs
             /\ hist' = Append(hist, [op |-> "persist", so |-> so, dir |-> d, seq |-> n, data |-> x])
SetS == \E so \in DOMAIN objs, a \in SetVals, b \in SetVals :
          /\ a + b > 0
          /\ LET r == SetSeqNum(j, objs[so], a, b) IN
             /\ j' = r.j /\ objs' = [objs EXCEPT ![so] = r.so]
             /\ hist' = Append(hist, [op |-> "setseq", so |-> so, a |-> a, b |-> b])
Next == Col \/ Pers \/ SetS
Spec == Init /\ [][Next]_vars

View == <<j, objs>>

\* ---- the property laws, on the model ----
ev_ == hist'[Len(hist')]
Inv_Unique == UniqueRows(j) /\ UniqueSessions(j)
Inv_LoadPathsAgree == LoadPathsAgree(j)
\* a stored message is returned unchanged by every range query that includes its number,
\* only for its own session and direction, ascending
Inv_Range ==
    \A k \in DOMAIN j.sess, d \in Dirs, lo \in 0..8, hi \in 0..8 :
        LET r == RowSet(j, k, d, lo, hi)
            q == Recover(j, k, d, lo, hi) IN
        /\ Len(q) = Cardinality(r)
        /\ \A x \in r : x.key = k /\ x.dir = d /\ x.seq >= lo /\ x.seq <= hi
        /\ \A i \in DOMAIN j.rows :
              (j.rows[i].key = k /\ j.rows[i].dir = d /\ j.rows[i].seq >= lo /\ j.rows[i].seq <= hi)
                 => \E p \in DOMAIN q : q[p] = j.rows[i].data
        /\ (lo > hi => q = <<>>)
\* storing n makes n+1 the next number of that direction; a duplicate changes nothing
Act_Persist ==
    [][ev_.op = "persist" =>
         LET k == objs[ev_.so].key IN
         IF HasRow(j, k, ev_.dir, ev_.seq) THEN j' = j
         ELSE /\ Recover1(j', k, ev_.dir, ev_.seq) = ev_.data
              /\ LET c == CreateOrLoad(j', j'.sess[k].t, j'.sess[k].s).res IN
                 IF ev_.dir = "out" THEN c.nout = ev_.seq + 1 ELSE c.nin = ev_.seq + 1
              /\ \A i \in DOMAIN j.rows : \E i2 \in DOMAIN j'.rows : j'.rows[i2] = j.rows[i]]_vars
\* setting the counters removes exactly the messages numbered at or above the new values
Act_SetSeq ==
    [][ev_.op = "setseq" =>
         LET so == objs'[ev_.so] IN
         /\ \A i \in DOMAIN j.rows :
               LET r == j.rows[i]
                   gone == r.key = so.key /\ ((r.dir = "in" /\ r.seq >= so.nin) \/ (r.dir = "out" /\ r.seq >= so.nout))
               IN gone <=> ~(\E i2 \in DOMAIN j'.rows : j'.rows[i2] = r)
         /\ LET c == CreateOrLoad(j', j'.sess[so.key].t, j'.sess[so.key].s).res IN
            c.nout = so.nout /\ c.nin = so.nin]_vars

Inv_DumpState == Dump => PrintT(<<"STATE", ToJson(hist)>>)
=============================================================================
