------------------------------ MODULE SendConc ------------------------------
(***************************************************************************)
(* Tasks interleaving at the library's suspension points (property C14).   *)
(* The atomic pieces between two awaits are Endpoint operators:            *)
(*   send_msg           = [checks; encode = allocate number; journal;      *)
(*                         transport write]  ; await drain                 *)
(*   send_test_req      = [register TestReqID; send_msg piece] ; await     *)
(*                         drain                                           *)
(*   _process_resend    = [state := HANDLING] ; await on_state_change ;    *)
(*                        [read journal range] ; for each application row: *)
(*                        await should_replay ; ([write gap fill] ; await  *)
(*                        drain ;) [write retransmission] ; await drain ;  *)
(*                        ... ; ([write final gap fill] ; await drain ;)   *)
(*                        [state := ACTIVE] ; await on_state_change ;      *)
(*                        [finalize inbound]                               *)
(* drain waiters wake in FIFO order.  The wire is the global sequence of   *)
(* frames written.  Clauses S1-S5 are checked in every terminal state and  *)
(* S1/S2 in every state.                                                   *)
(***************************************************************************)
EXTENDS Endpoint, SendConcProps, Json

CONSTANTS Apps,            \* application sender tasks, e.g. {"a1", "a2"}
          WithHB, WithRR,  \* is the heartbeat task / the reader servicing a ResendRequest present
          Dump
VARIABLES ep, pc, wire, drainQ, res, rd, hist
vars == <<ep, pc, wire, drainQ, res, rd, hist>>

Tasks == Apps \cup (IF WithHB THEN {"hb"} ELSE {}) \cup (IF WithRR THEN {"rd"} ELSE {})

\* a logged-on acceptor that has sent: Logon(1), App a(2), Heartbeat(3), App b(4)
Base ==
    LET a == Attach(Clr(NewEndpoint(1, 1)), "KEEP")
        l == Swallow(ProcessMessage(Clr(a), [Frame("LOGON", 1) EXCEPT !.seq = 1] @@ [hdr |-> "ok"], 1000000, {}, TRUE))
        s1 == SendMsg(Clr(l), [Frame("APP", 0) EXCEPT !.pay = "11=a"], TRUE)
        s2 == SendMsg(Clr(s1), Frame("HB", 0), TRUE)
        s3 == SendMsg(Clr(s2), [Frame("APP", 0) EXCEPT !.pay = "11=b"], TRUE)
    IN Clr(s3)

Init == /\ ep = Base /\ pc = [t \in Tasks |-> "start"] /\ wire = <<>> /\ drainQ = <<>>
        /\ res = [t \in Tasks |-> "none"] /\ rd = [rows |-> <<>>, i |-> 1, gs |-> 0, hi |-> 0] /\ hist = <<>>

Sched(t) == hist' = Append(hist, t)
Wrote(e2) == wire' = wire \o e2.wrote

\* ---- application sender ----
AppStart(t) ==
    /\ t \in Apps /\ pc[t] = "start"
    /\ LET e2 == SendMsg(Clr(ep), [Frame("APP", 0) EXCEPT !.pay = "11=" \o t], TRUE) IN
       /\ ep' = e2 /\ Wrote(e2)
       /\ IF Failed(e2) THEN pc' = [pc EXCEPT ![t] = "done"] /\ res' = [res EXCEPT ![t] = e2.exc] /\ UNCHANGED drainQ
          ELSE pc' = [pc EXCEPT ![t] = "drain"] /\ drainQ' = Append(drainQ, t) /\ UNCHANGED res
    /\ Sched(t) /\ UNCHANGED rd
\* ---- heartbeat task sending a TestRequest ----
HbStart ==
    /\ "hb" \in Tasks /\ pc["hb"] = "start"
    /\ LET e1 == [Clr(ep) EXCEPT !.treq = 1000007]
           e2 == SendMsg(e1, TRFrame("1000007"), TRUE) IN
       /\ ep' = e2 /\ Wrote(e2) /\ pc' = [pc EXCEPT !["hb"] = "drain"] /\ drainQ' = Append(drainQ, "hb")
    /\ Sched("hb") /\ UNCHANGED <<res, rd>>
\* ---- FIFO wake-up from drain ----
DrainDone(t) ==
    /\ pc[t] = "drain" /\ drainQ # <<>> /\ Head(drainQ) = t
    /\ drainQ' = Tail(drainQ)
    /\ pc' = [pc EXCEPT ![t] = IF t = "rd" THEN "rd_after_write" ELSE "done"]
    /\ Sched(t) /\ UNCHANGED <<ep, wire, res, rd>>
\* ---- reader servicing ResendRequest(1, 0) ----
RdStart ==
    /\ "rd" \in Tasks /\ pc["rd"] = "start"
    /\ ep' = SetState(Clr(ep), HANDLING) /\ pc' = [pc EXCEPT !["rd"] = "rd_hook1"]
    /\ Sched("rd") /\ UNCHANGED <<wire, drainQ, res, rd>>
RdRange ==       \* after on_state_change: snapshot of the requested range
    /\ "rd" \in Tasks /\ pc["rd"] = "rd_hook1"
    /\ LET hi == ep.nout - 1 IN
       /\ rd' = [rows |-> SelectSeq(JRange(ep.jout, 1, hi), LAMBDA r : r.kind \notin SessionKinds), i |-> 1, gs |-> 1, hi |-> hi]
       /\ pc' = [pc EXCEPT !["rd"] = "rd_loop"]
    /\ Sched("rd") /\ UNCHANGED <<ep, wire, drainQ, res>>
RdLoop ==        \* next application row (await should_replay), or the tail
    /\ "rd" \in Tasks /\ pc["rd"] = "rd_loop"
    /\ IF rd.i > Len(rd.rows)
       THEN IF rd.gs <= rd.hi
            THEN /\ ep' = SendRaw(ep, GapFillFrame(rd.gs, rd.hi + 1), TRUE)
                 /\ wire' = Append(wire, GapFillFrame(rd.gs, rd.hi + 1))
                 /\ pc' = [pc EXCEPT !["rd"] = "drain"] /\ drainQ' = Append(drainQ, "rd")
                 /\ rd' = [rd EXCEPT !.gs = rd.hi + 1]
            ELSE /\ ep' = SetState(ep, "ACTIVE") /\ pc' = [pc EXCEPT !["rd"] = "rd_hook2"]
                 /\ UNCHANGED <<wire, drainQ, rd>>
       ELSE /\ pc' = [pc EXCEPT !["rd"] = "rd_replay"] /\ UNCHANGED <<ep, wire, drainQ, rd>>
    /\ Sched("rd") /\ UNCHANGED res
RdReplay ==      \* should_replay answered: gap fill first if needed, else the retransmission
    /\ "rd" \in Tasks /\ pc["rd"] = "rd_replay"
    /\ LET r == rd.rows[rd.i] IN
       IF rd.gs < r.seq
       THEN /\ ep' = SendRaw(ep, GapFillFrame(rd.gs, r.seq), TRUE) /\ wire' = Append(wire, GapFillFrame(rd.gs, r.seq))
            /\ rd' = [rd EXCEPT !.gs = r.seq]
       ELSE LET fr == [Frame(r.kind, r.seq) EXCEPT !.pd = TRUE, !.pay = r.pay] IN
            /\ ep' = SendRaw(ep, fr, TRUE) /\ wire' = Append(wire, fr)
            /\ rd' = [rd EXCEPT !.gs = r.seq + 1, !.i = rd.i + 1]
    /\ pc' = [pc EXCEPT !["rd"] = "drain"] /\ drainQ' = Append(drainQ, "rd")
    /\ Sched("rd") /\ UNCHANGED res
RdAfterWrite ==
    /\ "rd" \in Tasks /\ pc["rd"] = "rd_after_write"
    /\ pc' = [pc EXCEPT !["rd"] = IF rd.i <= Len(rd.rows) /\ rd.gs = rd.rows[rd.i].seq THEN "rd_replay" ELSE "rd_loop"]
    /\ UNCHANGED <<ep, wire, drainQ, res, rd, hist>>
RdFinish ==      \* after the second on_state_change: finalize the request itself
    /\ "rd" \in Tasks /\ pc["rd"] = "rd_hook2"
    /\ ep' = [ep EXCEPT !.nin = @ + 1, !.jin = Append(@, ep.nin), !.sin = ep.nin + 1]
    /\ pc' = [pc EXCEPT !["rd"] = "done"]
    /\ Sched("rd") /\ UNCHANGED <<wire, drainQ, res, rd>>

Done == \A t \in Tasks : pc[t] = "done"

Next == \/ \E t \in Apps : AppStart(t)
        \/ HbStart \/ \E t \in Tasks : DrainDone(t)
        \/ RdStart \/ RdRange \/ RdLoop \/ RdReplay \/ RdAfterWrite \/ RdFinish
        \/ (Done /\ UNCHANGED vars)       \* termination is not a deadlock; any other stuck state is
Spec == Init /\ [][Next]_vars


Inv_S1 == S1w(wire, Base.nout)
Inv_S6 == S6w(wire)
Inv_S2 == S2w(wire)
Inv_End == Done => /\ S3r(res) /\ S4j(wire, ep.jout) /\ S5c(wire, Base.nout, ep.sout) /\ ep.nout = ep.sout
                   /\ (WithRR => ep.cs = "ACTIVE")
View == <<ep, pc, wire, drainQ, res, rd>>
Inv_DumpEnd == (Dump /\ Done) => PrintT(<<"END", ToJson([wire |-> wire, hist |-> hist])>>)
=============================================================================
