--------------------------- MODULE GroupCodecEval ---------------------------
(* C01 on the real codec: one record per (tree, encoding mode): the tree handed to
   Codec.encode (values as byte lists), the bytes produced, what Codec.decode returned for
   them, the session counters before/after.  The group table is the LIVE table of the working
   tree (IOEnv.TABLE_FILE).  Clauses:
     M_roundtrip_model  the decoder algorithm (GroupCodec!Parse) inverts Flatten for this tree and table
     RT_body / RT_type / RT_consumed / RT_raw   the real decode returned the same tree / type / whole frame
     HDR_compids / HDR_seqnum                    CompIDs of the session, number allocated or carried
     TOK_wire           the bytes, tokenised independently by Wire.tla, are header + Flatten(tree) + trailer *)
EXTENDS GroupCodec, Wire, Json, IOUtils

Traces == JsonDeserialize(IOEnv.TRACE_FILE)
TableJ == JsonDeserialize(IOEnv.TABLE_FILE)      \* sequence of [g, members]
Table == [g \in { TableJ[i].g : i \in DOMAIN TableJ } |-> TableJ[CHOOSE i \in DOMAIN TableJ : TableJ[i].g = g].members]

RECURSIVE NatToBytes(_)
NatToBytes(n) == IF n < 10 THEN <<48 + n>> ELSE NatToBytes(n \div 10) \o <<48 + (n % 10)>>
RECURSIVE FlattenB(_)
RECURSIVE FlattenItemsB(_, _)
FlattenB(t) ==
    IF t = <<>> THEN <<>>
    ELSE LET h == Head(t) IN
         (IF h.k = "f" THEN << <<h.tag, h.val>> >> ELSE << <<h.tag, NatToBytes(Len(h.items))>> >> \o FlattenItemsB(h.items, 1))
         \o FlattenB(Tail(t))
FlattenItemsB(items, i) == IF i > Len(items) THEN <<>> ELSE FlattenB(items[i]) \o FlattenItemsB(items, i + 1)
\* tokens of Flatten with the count as text, for Parse (which ignores the count value anyway)
RECURSIVE FlattenT(_)
RECURSIVE FlattenItemsT(_, _)
FlattenT(t) ==
    IF t = <<>> THEN <<>>
    ELSE LET h == Head(t) IN
         (IF h.k = "f" THEN <<Tok(h.tag, h.val)>> ELSE <<Tok(h.tag, <<>>)>> \o FlattenItemsT(h.items, 1)) \o FlattenT(Tail(t))
FlattenItemsT(items, i) == IF i > Len(items) THEN <<>> ELSE FlattenT(items[i]) \o FlattenItemsT(items, i + 1)

WireToks(b) == LET fs == Fields(b) IN [i \in DOMAIN fs |-> <<ToNat(fs[i][1], 1, 0), fs[i][2]>>]
Fc(name, ok) == IF ok THEN <<>> ELSE <<name>>
Verdict(r) ==
    IF ~WellFormedTree(r.tree, Table) THEN [id |-> r.id, fails |-> <<>>, wf |-> FALSE]
    ELSE
    LET wt == IF r.enc_exc = "none" THEN WireToks(r.bytes) ELSE <<>>
        n == Len(wt)
        seqOK == IF r.mode \in {"alloc", "pdN", "pdNc"} THEN r.hdr34 = r.nout_before /\ r.nout_after = r.nout_before + 1
                 ELSE r.hdr34 = r.carried /\ r.nout_after = r.nout_before
    IN [id |-> r.id, wf |-> TRUE,
        fails |-> Fc("M_roundtrip_model", Parse(FlattenT(r.tree), Table) = r.tree)
               \o Fc("ENC_no_exception", r.enc_exc = "none")
               \o (IF r.enc_exc # "none" THEN <<>> ELSE
                   Fc("DEC_returns_message", r.dec_msg)
                \o (IF ~r.dec_msg THEN <<>> ELSE
                      Fc("RT_body", r.dec_body = r.tree) \o Fc("RT_type", r.dec_type = r.type)
                   \o Fc("HDR_compids", r.hdr49 = r.sender /\ r.hdr56 = r.target) \o Fc("HDR_seqnum", seqOK))
                \o Fc("RT_consumed", r.consumed = Len(r.bytes)) \o Fc("RT_raw", r.raw_equal)
                \o Fc("RT_followed", r.dec_msg => r.followed_ok)
                \o Fc("TOK_wire", n >= 8 /\ wt[1][1] = 8 /\ wt[2][1] = 9 /\ wt[3][1] = 35 /\ wt[n][1] = 10
                                   /\ SubSeq(wt, 8 + r.extra_hdr, n - 1) = FlattenB(r.tree)))]
ASSUME JsonSerialize(IOEnv.OUT_FILE, [i \in DOMAIN Traces |-> Verdict(Traces[i])])
=============================================================================
