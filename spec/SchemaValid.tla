----------------------------- MODULE SchemaValid -----------------------------
(***************************************************************************)
(* Validity of a message tree with respect to a FIX XML dictionary         *)
(* (property C15).  The dictionary is read from IOEnv.DICT_FILE, produced  *)
(* by an independent XML translator (harness/fixdict.py) that does not use *)
(* the library's schema module:                                            *)
(*   Dict.fields[tag]   = [name, type, enums (sequence, empty = none)]     *)
(*   Dict.header        = sequence of header/trailer tags                  *)
(*   Dict.messages[mt]  = [name, members]                                  *)
(*   member = [k |-> "f", tag, req, creq] | [k |-> "g", tag, req, creq,    *)
(*            members]   (components expanded in place; creq = every       *)
(*            enclosing component is itself required)                      *)
(* A message is a tree as in GroupCodec: fields [k, tag, val] / [k, tag,   *)
(* items] with tags as strings.                                            *)
(* Defects(mt, tree) is the set of [sev, why] with sev "no" (definitely    *)
(* invalid) or "unspec" (FIX semantics and a flattening reading differ, or *)
(* the value's lexical status is unspecified).  Verdict: "no" if any "no"  *)
(* defect, else "unspec" if any, else "yes".                               *)
(***************************************************************************)
EXTENDS Lexical, Json, IOUtils

Dict == JsonDeserialize(IOEnv.DICT_FILE)
FTags == DOMAIN Dict.fields
HeaderTags == { Dict.header[i] : i \in DOMAIN Dict.header }
SOHs == Dict.soh

D(sev, why) == [sev |-> sev, why |-> why]
TagSet(fs) == { fs[i].tag : i \in DOMAIN fs }
MemberTags(ms) == { ms[i].tag : i \in DOMAIN ms }
MemberOf(ms, t) == ms[CHOOSE i \in DOMAIN ms : ms[i].tag = t]
MemberIdx(ms, t) == CHOOSE i \in DOMAIN ms : ms[i].tag = t

ValueDefects(tag, val) ==
    LET f == Dict.fields[tag] IN
    IF tag = "16" /\ val = "0" THEN {}          \* EndSeqNo = 0 means "to infinity"
    ELSE IF f.enums # <<>>
    THEN IF \E i \in DOMAIN f.enums : f.enums[i] = val THEN {} ELSE {D("no", "value not in enumeration of " \o tag)}
    ELSE LET l == InLex(f.type, val, SOHs) IN
         IF l = "no" THEN {D("no", "value outside type " \o f.type \o " of " \o tag)}
         ELSE IF l = "unspec" THEN {D("unspec", "lexical status unspecified for " \o tag)} ELSE {}

RECURSIVE ItemDefects(_, _, _)
RECURSIVE FieldsDefects(_, _, _)
\* one field of a container whose allowed members are ms (top = TRUE: top level of the message)
FieldDefects(f, ms, top) ==
    IF f.tag \notin FTags THEN {D("no", "tag unknown to the dictionary: " \o f.tag)}
    ELSE IF top /\ f.tag \in HeaderTags THEN {}
    ELSE IF f.tag \notin MemberTags(ms) THEN {D("no", "tag not allowed here: " \o f.tag)}
    ELSE LET m == MemberOf(ms, f.tag) IN
         IF m.k = "f"
         THEN IF f.k = "g" THEN {D("no", "plain field given as group: " \o f.tag)} ELSE ValueDefects(f.tag, f.val)
         ELSE IF f.k = "f" THEN {D("no", "group given as plain field: " \o f.tag)}
              ELSE IF f.items = <<>> THEN {D("no", "empty group " \o f.tag)}
              ELSE UNION { ItemDefects(f.items[i], m.members, f.tag) : i \in DOMAIN f.items }
FieldsDefects(fs, ms, top) == UNION { FieldDefects(fs[i], ms, top) : i \in DOMAIN fs }
RequiredDefects(fs, ms) ==
    UNION { IF ms[i].req /\ ms[i].tag \notin TagSet(fs)
            THEN (IF ms[i].creq THEN {D("no", "missing required " \o ms[i].tag)} ELSE {D("unspec", "required member of an optional component missing: " \o ms[i].tag)})
            ELSE {} : i \in DOMAIN ms }
ItemDefects(item, ms, g) ==
    (IF item = <<>> \/ item[1].tag # ms[1].tag THEN {D("no", "group item does not start with the first member of " \o g)} ELSE {})
    \cup (IF \E i, j \in DOMAIN item : i < j /\ item[i].tag \in MemberTags(ms) /\ item[j].tag \in MemberTags(ms)
                                        /\ MemberIdx(ms, item[i].tag) > MemberIdx(ms, item[j].tag)
          THEN {D("no", "group members out of dictionary order in " \o g)} ELSE {})
    \cup FieldsDefects(item, ms, FALSE)
    \cup RequiredDefects(item, ms)

Defects(mt, tree) ==
    IF mt \notin DOMAIN Dict.messages THEN {D("no", "unknown message type " \o mt)}
    ELSE LET ms == Dict.messages[mt].members IN FieldsDefects(tree, ms, TRUE) \cup RequiredDefects(tree, ms)
Valid(mt, tree) ==
    LET ds == Defects(mt, tree) IN
    IF \E x \in ds : x.sev = "no" THEN "no" ELSE IF ds # {} THEN "unspec" ELSE "yes"
=============================================================================
