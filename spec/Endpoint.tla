----------------------------- MODULE Endpoint -----------------------------
(***************************************************************************)
(* One asyncfix connection object (asyncfix/connection.py) as a record and *)
(* its handlers as pure operators on that record, branch by branch in the  *)
(* order the code executes them.  One operator per method:                 *)
(*   SendMsg, Disconnect, ProcessMessage (= ValidateIntegrity, first       *)
(*   message rules, ProcessLogon / ProcessSeqReset / ProcessLogout,        *)
(*   CheckGaps, ProcessResend / TestRequest / Heartbeat / on_message,      *)
(*   Finalize), HeartbeatTick, ReadEOF, ResetSeqNum.                       *)
(*                                                                         *)
(* ep == [cs, role, nin, nout, maxr, treq, last, wasActive, sock,          *)
(*        jout, jin, sin, sout,      -- journal (outbound rows by number,  *)
(*                                      inbound numbers, stored *next*     *)
(*                                      numbers)                           *)
(*        wrote, deliv, cb, exc]     -- outputs of the current step        *)
(*                                                                         *)
(* A step is "apply one environment event, run the library to quiescence". *)
(* Deliberate deviations of the code from the properties are named KF_*    *)
(* constants consulted at the decision point where the code goes wrong.    *)
(***************************************************************************)
EXTENDS Integers, Sequences, FiniteSets, TLC

CONSTANTS
    KF_BackwardReset,     \* reset-mode SequenceReset honoured even when NewSeqNo < expected (pinned by a repo test)
    KF_StoredInLag,       \* stored inbound counter = own number of the last journaled frame, also after a SequenceReset
    KF_WriteBeforeJournal \* transport write + drain happen before the journal write (a failed drain consumes the number)

NCE == "NETWORK_CONN_ESTABLISHED"
LIS == "LOGON_INITIAL_SENT"
LIR == "LOGON_INITIAL_RECV"
AWAIT == "RESENDREQ_AWAITING"
HANDLING == "RESENDREQ_HANDLING"
TOOHIGH == "RECV_SEQNUM_TOO_HIGH"
BROKEN == "DISCONNECTED_BROKEN_CONN"
WCONN == "DISCONNECTED_WCONN_TODAY"
NOCONN == "DISCONNECTED_NOCONN_TODAY"

Rank(cs) ==
    CASE cs = "UNKNOWN" -> 0 [] cs = NOCONN -> 1 [] cs = WCONN -> 2 [] cs = BROKEN -> 3
      [] cs = "AWAITING_CONNECTION" -> 4 [] cs = "INITIATE_CONNECTION" -> 5 [] cs = NCE -> 6
      [] cs = LIS -> 7 [] cs = LIR -> 8 [] cs = "LOGON_RESPONSE" -> 9 [] cs = HANDLING -> 10
      [] cs = TOOHIGH -> 11 [] cs = AWAIT -> 12 [] cs = "ACTIVE" -> 17 [] OTHER -> 18
Disconnected(cs) == Rank(cs) <= 3
LoggedOn(cs) == cs \in {"ACTIVE", AWAIT, HANDLING, TOOHIGH}

SessionKinds == {"LOGON", "LOGOUT", "RR", "HB", "TR", "SEQRESET"}

(* ---- frames -------------------------------------------------------------- *)
\* kind, seq, pd (PossDupFlag), gf (GapFillFlag), newseq, b/e (Begin/EndSeqNo), trid (TestReqID,
\* "" = absent), pay (application payload identity), text (Logout has Text(58))
Frame(kind, seq) == [kind |-> kind, seq |-> seq, pd |-> FALSE, gf |-> FALSE, newseq |-> 0, b |-> 0, e |-> 0,
                     trid |-> "", pay |-> "", text |-> FALSE]
RRFrame(b) == [Frame("RR", 0) EXCEPT !.b = b, !.e = 0]
HBFrame(id) == [Frame("HB", 0) EXCEPT !.trid = id]
TRFrame(id) == [Frame("TR", 0) EXCEPT !.trid = id]
LogoutFrame(withText) == [Frame("LOGOUT", 0) EXCEPT !.text = withText]
GapFillFrame(from, to) == [Frame("SEQRESET", from) EXCEPT !.gf = TRUE, !.newseq = to]

(* ---- outbound journal: sequence of rows sorted by number ------------------ *)
JHas(j, n) == \E i \in DOMAIN j : j[i].seq = n
JRow(j, n) == j[CHOOSE i \in DOMAIN j : j[i].seq = n]
JPut(j, r) == SelectSeq(j, LAMBDA x : x.seq < r.seq) \o <<r>> \o SelectSeq(j, LAMBDA x : x.seq > r.seq)
JRange(j, lo, hi) == SelectSeq(j, LAMBDA x : x.seq >= lo /\ x.seq <= hi)
JDelFrom(j, n) == SelectSeq(j, LAMBDA x : x.seq < n)
RowOf(f) == [seq |-> f.seq, kind |-> f.kind, pd |-> f.pd, gf |-> f.gf, newseq |-> f.newseq, pay |-> f.pay]

(* ---- small helpers --------------------------------------------------------- *)
Clr(ep) == [ep EXCEPT !.wrote = <<>>, !.deliv = <<>>, !.cb = <<>>, !.exc = "none"]
Err(ep, e) == [ep EXCEPT !.exc = e]
Swallow(ep) == [ep EXCEPT !.exc = "none"]
Failed(ep) == ep.exc # "none"
SetState(ep, cs) == [ep EXCEPT !.cs = cs, !.wasActive = @ \/ cs = "ACTIVE", !.cb = Append(@, "state:" \o cs)]
Cb(ep, name) == [ep EXCEPT !.cb = Append(@, name)]

(* ---- send_msg ------------------------------------------------------------- *)
\* m is a Frame whose seq = 0 means "no MsgSeqNum supplied".  up = transport still connected.
SendMsg(ep, m, up) ==
    IF Rank(ep.cs) < 6 THEN Err(ep, "FIXConnectionError")
    ELSE IF ep.cs = NCE /\ m.kind \notin {"LOGON", "LOGOUT"} THEN Err(ep, "FIXConnectionError")
    ELSE IF ep.cs # NCE /\ ep.role = "INITIATOR" /\ ep.cs = LIS /\ m.kind # "LOGOUT"
         THEN Err(ep, "FIXConnectionError")
    ELSE LET e1 == IF ep.cs = NCE THEN [SetState(ep, LIS) EXCEPT !.role = "INITIATOR"] ELSE ep IN
         IF m.kind = "TR" /\ (e1.treq = 0 \/ m.trid # ToString(e1.treq)) THEN Err(e1, "FIXConnectionError")
         ELSE IF (m.kind = "SEQRESET" \/ m.pd) /\ m.seq = 0 THEN Err(e1, "EncodingError")
         ELSE LET keep == m.kind = "SEQRESET" \/ m.pd
                  n == IF keep THEN m.seq ELSE e1.nout
                  e2 == IF keep THEN e1 ELSE [e1 EXCEPT !.nout = @ + 1]
                  fr == [m EXCEPT !.seq = n]
                  \* text that cannot be converted to bytes fails after the number was allocated
                  badenc == m.pay = "11=BADENC"
                  jr == IF JHas(e2.jout, n) THEN Err(e2, "DuplicateSeqNoError")
                        ELSE [e2 EXCEPT !.jout = JPut(@, RowOf(fr)), !.sout = n + 1]
              IN IF badenc THEN Err(e2, "UnicodeEncodeError")
                 ELSE IF KF_WriteBeforeJournal
                 THEN LET e3 == [e2 EXCEPT !.wrote = Append(@, fr)] IN
                      IF ~up THEN Err(e3, "ConnectionResetError")
                      ELSE IF JHas(e3.jout, n) THEN Err(e3, "DuplicateSeqNoError")
                      ELSE [e3 EXCEPT !.jout = JPut(@, RowOf(fr)), !.sout = n + 1]
                 ELSE IF Failed(jr) THEN jr
                      ELSE LET e3 == [jr EXCEPT !.wrote = Append(@, fr)] IN
                           IF ~up THEN Err(e3, "ConnectionResetError") ELSE e3

\* retransmission / gap fill written while servicing a ResendRequest: not journaled, no counter change
SendRaw(ep, fr, up) ==
    LET e1 == [ep EXCEPT !.wrote = Append(@, fr)] IN
    IF ~up THEN Err(e1, "ConnectionResetError") ELSE e1

(* ---- disconnect ------------------------------------------------------------ *)
\* logout: "none" = no Logout, "plain" = Logout without Text, "text" = Logout with Text
Disconnect(ep, st, logout, up) ==
    IF Disconnected(ep.cs) THEN ep
    ELSE LET e1 == [ep EXCEPT !.treq = 0, !.last = 0, !.maxr = 0]
             e2 == IF logout # "none" THEN SendMsg(e1, LogoutFrame(logout = "text"), up) ELSE e1
         IN IF Failed(e2) THEN e2      \* the exception leaves the socket open and the state unchanged
            ELSE Cb(SetState([e2 EXCEPT !.sock = FALSE], st), "disconnect")

(* ---- _validate_integrity ---------------------------------------------------- *)
\* f.hdr in {"ok","nosender","notarget","swapped","wrongS","wrongT","noseq"}
Integrity(ep, f) ==
    IF f.hdr \in {"nosender", "notarget"} THEN "drop"
    ELSE IF f.hdr \in {"swapped", "wrongS", "wrongT"} THEN "text"
    ELSE IF f.hdr = "noseq" THEN "text"
    ELSE IF f.seq < ep.nin /\ f.kind # "SEQRESET" /\ ~(ep.cs = AWAIT /\ f.pd) THEN "text"
    ELSE "ok"

(* ---- handlers called from _process_message ---------------------------------- *)
ProcessLogon(ep, f, up) ==
    IF ep.role \notin {"ACCEPTOR", "INITIATOR"} THEN Err(ep, "AssertionError")
    ELSE IF ep.role = "ACCEPTOR" /\ ep.cs # LIR THEN Err(ep, "AssertionError")
    ELSE IF ep.role = "INITIATOR" /\ ep.cs # LIS THEN Err(ep, "AssertionError")   \* Logon only answers our Logon
    ELSE LET \* the acceptor copies EncryptMethod / HeartBtInt of the peer's Logon into its reply: a Logon without them raises
             e1 == IF ep.role = "ACCEPTOR" /\ f.seq >= ep.nin
                   THEN IF f.hdr \in {"nohb", "noenc"} THEN Err(ep, "TagNotFoundError") ELSE SendMsg(ep, Frame("LOGON", 0), up)
                   ELSE ep IN
         IF Failed(e1) THEN e1
         ELSE LET e2 == SetState(e1, IF f.seq = e1.nin THEN "ACTIVE" ELSE TOOHIGH)
              IN Cb(e2, IF e2.cs = "ACTIVE" THEN "logon:ok" ELSE "logon:gap")

\* journaler.set_seq_num(session, next_num_in = n): stores BOTH live counters and prunes both directions
SetSeqIn(ep, n) ==
    [ep EXCEPT !.nin = n, !.sin = n, !.sout = ep.nout,
               !.jin = SelectSeq(@, LAMBDA x : x < n), !.jout = JDelFrom(@, ep.nout)]

\* result: [ep, go] ; go = FALSE means "ignored: leave _process_message without finalizing".
\* Only the first set_seq_num (to the message's own number) happens here; the journal is set to
\* NewSeqNo by Finalize, after the reset message itself has been journaled.
ProcessSeqReset(ep, f) ==
    IF f.gf
    THEN IF f.seq > ep.nin THEN [ep |-> ep, go |-> TRUE]            \* a gap: handled by CheckGaps, never applied
         ELSE IF f.seq < ep.nin \/ f.newseq <= f.seq THEN [ep |-> ep, go |-> FALSE]
         ELSE [ep |-> SetSeqIn(ep, f.seq), go |-> TRUE]
    ELSE IF f.newseq <= 0 THEN [ep |-> ep, go |-> FALSE]
         ELSE IF f.seq <= 0 THEN [ep |-> Err(ep, "AssertionError"), go |-> TRUE]
         ELSE IF ~KF_BackwardReset /\ f.newseq < ep.nin THEN [ep |-> ep, go |-> FALSE]
         ELSE [ep |-> SetSeqIn(ep, f.seq), go |-> TRUE]

ProcessLogout(ep, up) ==
    Disconnect(Cb(ep, "logout"), IF ep.wasActive THEN WCONN ELSE BROKEN, "none", up)

CheckGaps(ep, f, up) ==     \* result [ep, valid]
    IF f.seq > ep.nin
    THEN IF ep.cs # AWAIT
         THEN LET e1 == SendMsg([ep EXCEPT !.maxr = f.seq], RRFrame(ep.nin), up) IN
              [ep |-> IF Failed(e1) THEN e1 ELSE SetState(e1, AWAIT), valid |-> FALSE]
         ELSE [ep |-> ep, valid |-> FALSE]
    ELSE [ep |-> ep, valid |-> TRUE]

\* --- ResendRequest servicing (without touching counters or journal) ---
Replayable(r, declined) == r.kind \notin SessionKinds /\ r.pay \notin declined
RECURSIVE ResendBuild(_, _, _, _, _, _)
ResendBuild(rows, i, gs, hi, declined, acc) ==   \* gs = first number of the gap being accumulated
    IF i > Len(rows)
    THEN IF gs <= hi THEN Append(acc, GapFillFrame(gs, hi + 1)) ELSE acc
    ELSE LET r == rows[i] IN
         IF Replayable(r, declined)
         THEN ResendBuild(rows, i + 1, r.seq + 1, hi, declined,
                          Append(IF gs < r.seq THEN Append(acc, GapFillFrame(gs, r.seq)) ELSE acc,
                                 [Frame(r.kind, r.seq) EXCEPT !.pd = TRUE, !.pay = r.pay]))
         ELSE ResendBuild(rows, i + 1, gs, hi, declined, acc)

ResendReply(ep, b, e, declined) ==
    LET last == ep.nout - 1
        hi == IF e = 0 \/ e > last THEN last ELSE e
    IN IF b < 1 \/ b > hi THEN <<>>
       ELSE ResendBuild(JRange(ep.jout, b, hi), 1, b, hi, declined, <<>>)

RECURSIVE SendAll(_, _, _, _)
SendAll(ep, frs, i, up) ==
    IF i > Len(frs) \/ Failed(ep) THEN ep ELSE SendAll(SendRaw(ep, frs[i], up), frs, i + 1, up)

ProcessResend(ep, f, declined, up) ==
    LET e1 == IF ep.cs # AWAIT THEN SetState(ep, HANDLING) ELSE ep
        e2 == SendAll(e1, ResendReply(e1, f.b, f.e, declined), 1, up)
    IN IF e2.cs = HANDLING THEN SetState(e2, "ACTIVE") ELSE e2     \* also when a write failed (finally:)

ProcessHeartbeat(ep, f, up) ==
    IF ep.treq = 0 \/ f.trid = "" THEN ep
    ELSE IF f.trid = ToString(ep.treq) THEN [ep EXCEPT !.treq = 0]
    ELSE Disconnect(ep, BROKEN, "text", up)

Finalize(ep, f, now) ==
    IF f.kind # "SEQRESET" /\ f.seq # ep.nin THEN ep
    ELSE IF f.kind = "SEQRESET" /\ f.newseq = 0 THEN ep
    ELSE LET e1 == [ep EXCEPT !.nin = IF f.kind = "SEQRESET" THEN f.newseq ELSE f.seq + 1]
             num == IF f.kind = "SEQRESET" THEN f.newseq - 1 ELSE f.seq
             sr == f.kind = "SEQRESET" /\ f.newseq > 0
         IN IF num <= 0 /\ ~sr THEN e1
            ELSE LET e2 == IF e1.cs = AWAIT /\ num >= e1.maxr
                           THEN SetState([e1 EXCEPT !.maxr = 0], "ACTIVE") ELSE e1
                     e3 == [e2 EXCEPT !.last = now]
                 IN \* a SequenceReset at or below its own number is not journaled (the cleanup of SetSeqIn would drop it)
                    IF sr /\ f.newseq <= f.seq THEN SetSeqIn(e3, f.newseq)
                    ELSE IF \E i \in DOMAIN e3.jin : e3.jin[i] = f.seq THEN Err(e3, "DuplicateSeqNoError")
                    ELSE LET \* persist_msg stores the frame's own number: n + 1 is the stored next number (for a SequenceReset the
                             \* live counter is held at own number + 1 as well until SetSeqIn moves both to NewSeqNo)
                             st == f.seq + 1
                             e4 == [e3 EXCEPT !.jin = SelectSeq(@, LAMBDA n : n < f.seq) \o <<f.seq>> \o SelectSeq(@, LAMBDA n : n > f.seq),
                                              !.sin = st]
                         IN IF f.kind = "SEQRESET" /\ ~KF_StoredInLag THEN SetSeqIn(e4, f.newseq) ELSE e4

(* ---- _process_message -------------------------------------------------------- *)
Dispatch(ep, f, valid, declined, up) ==
    CASE f.kind = "RR" -> ProcessResend(ep, f, declined, up)
      [] f.kind = "TR" -> SendMsg(ep, HBFrame(IF f.trid = "" THEN "0" ELSE f.trid), up)
      [] f.kind = "HB" -> ProcessHeartbeat(ep, f, up)
      [] f.kind \in {"SEQRESET", "LOGON", "LOGOUT"} -> ep
      [] OTHER -> IF valid /\ f.seq = ep.nin THEN Cb([ep EXCEPT !.deliv = Append(@, f.seq)], "message") ELSE ep

ProcessMessage(ep0, f, now, declined, up) ==
    LET ep == ep0
        integ == Integrity(ep, f)
    IN
    IF integ # "ok"
    THEN Disconnect(ep, BROKEN, IF integ = "text" THEN "text" ELSE "none", up)   \* exception, if any, escapes
    ELSE IF Rank(ep.cs) < 6 THEN ep                                            \* assertion, swallowed
    ELSE IF ep.cs = NCE /\ f.kind # "LOGON" THEN Swallow(Disconnect(ep, BROKEN, "none", up))
    ELSE IF ep.cs = LIS /\ f.kind \notin {"LOGON", "LOGOUT"} THEN Swallow(Disconnect(ep, BROKEN, "none", up))
    \* LOGON_INITIAL_RECV is left by _process_logon in the same step unless it raised: the Logon exchange has not completed
    ELSE IF ep.cs = LIR /\ f.kind # "LOGON" THEN Swallow(Disconnect(ep, BROKEN, "none", up))
    ELSE
      LET e1 == IF ep.cs = NCE THEN [SetState(ep, LIR) EXCEPT !.role = "ACCEPTOR"] ELSE ep
          sr == IF f.kind = "SEQRESET" THEN ProcessSeqReset(e1, f) ELSE [ep |-> e1, go |-> TRUE]
          e2 == CASE f.kind = "LOGON" -> ProcessLogon(e1, f, up)
                  [] f.kind = "SEQRESET" -> sr.ep
                  [] f.kind = "LOGOUT" -> ProcessLogout(e1, up)
                  [] OTHER -> e1
      IN IF Failed(e2) THEN Swallow(e2)
         ELSE IF ~sr.go THEN e2
         ELSE IF Disconnected(e2.cs) THEN e2
         ELSE LET g == CheckGaps(e2, f, up)
                  e3 == IF Failed(g.ep) THEN g.ep ELSE Dispatch(g.ep, f, g.valid, declined, up)
                  e4 == Swallow(e3)
              IN IF g.valid THEN Finalize(e4, f, now) ELSE e4

(* ---- heartbeat_timer_task: one wake-up at time `now` --------------------------- *)
\* Times (now, ep.last) are in units of 1/S second so that fractional arrival times stay integers;
\* H is in seconds.  The TestReqID is int(time.time()), i.e. whole seconds.
HeartbeatTickS(ep, now, H, S, up) ==
    IF ~ep.sock THEN ep
    ELSE LET sec == now \div S
             e1 == IF ep.cs = "ACTIVE" /\ now - ep.last > (H - 1) * S
                   THEN LET s == IF ep.treq = 0
                                 THEN SendMsg([ep EXCEPT !.treq = sec], TRFrame(ToString(sec)), up) ELSE ep
                        \* a failed send is logged and the loop iterates again at once (no sleep): the TestReqID is set by then,
                        \* so the second pass only stamps the time
                        IN [Swallow(s) EXCEPT !.last = now]
                   ELSE ep
             e2 == IF ~Failed(e1) /\ e1.last # 0 /\ now - e1.last > 2 * H * S THEN Disconnect(e1, BROKEN, "none", up) ELSE e1
             e3 == IF ~Failed(e2) /\ e2.treq # 0 /\ now - e2.treq * S > 2 * H * S THEN Disconnect(e2, BROKEN, "none", up) ELSE e2
         IN Swallow(e3)
HeartbeatTick(ep, now, H, up) == HeartbeatTickS(ep, now, H, 1, up)

(* ---- socket_read_task: end of stream / connection error ------------------------- *)
ReadEOF(ep, up) == Swallow(Disconnect(ep, BROKEN, "none", up))

(* ---- a new transport (client connect() / server accept) ------------------------- *)
Attach(ep, role) == [ep EXCEPT !.cs = NCE, !.sock = TRUE, !.role = IF role = "KEEP" THEN @ ELSE role]

NewEndpoint(nin, nout) ==
    [cs |-> NOCONN, role |-> "UNKNOWN", nin |-> nin, nout |-> nout, maxr |-> 0, treq |-> 0, last |-> 0,
     wasActive |-> FALSE, sock |-> FALSE, jout |-> <<>>, jin |-> <<>>, sin |-> nin, sout |-> nout,
     wrote |-> <<>>, deliv |-> <<>>, cb |-> <<>>, exc |-> "none"]
=============================================================================
