------------------------- MODULE JournalCrashEval -------------------------
(* Property C08 on real executions: a child process ran `ops` on a file-backed Journaler
   and died (mode "crash": at a statement/commit boundary inside the last operation;
   "end": right after the last operation returned) or closed the journal normally
   ("close").  R is what a fresh Journaler opened on the file reports.  Clauses:
     J1  R is the model state before or after the operation in flight (all or nothing)
     J3  every operation that had returned is reflected (mode "end")
     J4  normal close loses nothing
     J5  the reopened journal is usable (every public method worked, both load paths agree) *)
EXTENDS Journal, Json, IOUtils

Traces == JsonDeserialize(IOEnv.TRACE_FILE)

Proj(j) == [sess |-> j.sess, rows |-> j.rows]
Verdict(tr) ==
    LET n == Len(tr.ops)
        before == ApplyAll(SubSeq(tr.ops, 1, n - 1), 1, St0).j
        after == ApplyAll(tr.ops, 1, St0).j
        r == [sess |-> tr.R.sess, rows |-> tr.R.rows]
        f1 == IF tr.mode = "crash" /\ r # before /\ r # after THEN <<"J1">> ELSE <<>>
        f3 == IF tr.mode = "end" /\ r # after THEN <<"J3">> ELSE <<>>
        f4 == IF tr.mode = "close" /\ r # after THEN <<"J4">> ELSE <<>>
        f5 == IF tr.usable # "ok" THEN <<"J5">> ELSE <<>>
    IN [id |-> tr.id, fails |-> f1 \o f3 \o f4 \o f5,
        which |-> IF r = after THEN "after" ELSE IF r = before THEN "before" ELSE "neither",
        expected_after |-> ToJson(after)]

ASSUME JsonSerialize(IOEnv.OUT_FILE, [i \in DOMAIN Traces |-> Verdict(Traces[i])])
=============================================================================
