---------------------------- MODULE HeartbeatEval ----------------------------
(* C12 on recorded executions of the real heartbeat_timer_task + reader under the virtual
   clock (harness/props/c12.py).  trace = [id, H, S, steps]; step = [ev, pre, out, post] with
   ev.now in units of 1/S second.  Clauses W1a..W5 (HeartbeatProps); conformance with the
   Endpoint.tla step function (drift only). *)
EXTENDS Session1, HeartbeatProps, Json, IOUtils

Traces == JsonDeserialize(IOEnv.TRACE_FILE)

AbsRow(r) == [seq |-> r.seq, kind |-> r.kind, pd |-> r.pd, gf |-> r.gf, newseq |-> r.newseq, pay |-> r.pay]
AbsFr(w) == [kind |-> w.kind, seq |-> w.seq, pd |-> w.pd, gf |-> w.gf, newseq |-> w.newseq, b |-> w.b, e |-> w.e,
             trid |-> w.trid, pay |-> w.pay, text |-> w.text]
ToEp(p) == [cs |-> p.cs, role |-> p.role, nin |-> p.nin, nout |-> p.nout, maxr |-> p.maxr, treq |-> p.treq,
            last |-> p.last, wasActive |-> p.wasActive, sock |-> p.sock,
            jout |-> [i \in DOMAIN p.jout |-> AbsRow(p.jout[i])], jin |-> p.jin, sin |-> p.sin, sout |-> p.sout,
            wrote |-> <<>>, deliv |-> <<>>, cb |-> <<>>, exc |-> "none"]
Diff(m, post, out) ==
    (IF m.cs # post.cs THEN <<"cs">> ELSE <<>>) \o (IF m.nin # post.nin THEN <<"nin">> ELSE <<>>) \o
    (IF m.nout # post.nout THEN <<"nout">> ELSE <<>>) \o (IF m.treq # post.treq THEN <<"treq">> ELSE <<>>) \o
    (IF m.last # post.last THEN <<"last">> ELSE <<>>) \o (IF m.maxr # post.maxr THEN <<"maxr">> ELSE <<>>) \o
    (IF m.wrote # [i \in DOMAIN out.wrote |-> AbsFr(out.wrote[i])] THEN <<"wrote">> ELSE <<>>) \o
    (IF m.deliv # out.deliv THEN <<"deliv">> ELSE <<>>) \o (IF m.cb # out.cb THEN <<"cb">> ELSE <<>>)

F(name, ok) == IF ok THEN <<>> ELSE <<name>>
RECURSIVE Run(_, _, _, _)
Run(tr, i, mh, acc) ==
    IF i > Len(tr.steps) THEN acc
    ELSE LET s == tr.steps[i]
             now == s.ev.now
             mh2 == NextMH(mh, s.pre, s.ev, s.out, s.post, now, tr.H, tr.S)
             fl == F("W1a", W1a(mh2, s.post, now, tr.H, tr.S)) \o F("W1b", W1b(mh2, s.post, now, tr.H, tr.S))
                \o F("W1c", W1c(mh, s.ev, s.out, now, tr.H, tr.S))
                \o F("W2", W2(mh, s.pre, s.ev, s.out, s.post, now, tr.H, tr.S))
                \o F("W3", W3(s.pre, s.ev, s.out, s.post)) \o F("W4", W4(mh, s.ev, s.out))
                \o F("W5", W5(mh, s.pre, s.ev, s.out, s.post))
             df == Diff(Handle(ToEp(s.pre), s.ev, {}), s.post, s.out)
         IN Run(tr, i + 1, mh2,
                [fails |-> acc.fails \o [k \in DOMAIN fl |-> [step |-> i, clause |-> fl[k]]],
                 drift |-> acc.drift \o (IF df = <<>> THEN <<>> ELSE <<[step |-> i, fields |-> df]>>),
                 ntr |-> acc.ntr + Len(TRs(s.out.wrote)),
                 nwd |-> acc.nwd + (IF s.ev.t = "adv" /\ ~HDisc(s.pre.cs) /\ HDisc(s.post.cs) THEN 1 ELSE 0)])
Verdict(tr) == [id |-> tr.id] @@ Run(tr, 1, MH0, [fails |-> <<>>, drift |-> <<>>, ntr |-> 0, nwd |-> 0])
ASSUME JsonSerialize(IOEnv.OUT_FILE, [i \in DOMAIN Traces |-> Verdict(Traces[i])])
=============================================================================
