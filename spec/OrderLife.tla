------------------------------ MODULE OrderLife ------------------------------
(* The state machine over the step function of OrderLifeFn.tla: TLC explores every interleaving
   of client requests, exchange steps and the two in-flight queues up to the bounds and checks
   the C17 clauses O1-O5 in every state; the history (with the report handed to the client at
   every c_recv) is dumped for replay on the real FIXNewOrderSingle. *)
EXTENDS OrderLifeFn

CONSTANTS MaxReq, MaxEx, Dump
VARIABLES sys, nreq, nex, hist
vars == <<sys, nreq, nex, hist>>

Init == sys = S0 /\ nreq = 0 /\ nex = 0 /\ hist = <<>>
Next == \E ev \in Events :
          /\ Guard(sys, ev)
          /\ ev.a \in {"c_cancel", "c_replace"} => nreq < MaxReq
          /\ ev.a \in ExchSteps => nex < MaxEx
          /\ sys' = Do(sys, ev)
          /\ nreq' = nreq + (IF ev.a \in {"c_cancel", "c_replace"} THEN 1 ELSE 0)
          /\ nex' = nex + (IF ev.a \in ExchSteps THEN 1 ELSE 0)
          \* the report handed to the client travels with the event, so the harness needs no exchange of its own
          /\ hist' = Append(hist, IF ev.a = "c_recv" THEN ev @@ [m |-> Head(sys.e2c)] ELSE ev)
Spec == Init /\ [][Next]_vars

O1 == O1c(sys.o)
O2 == O2c(sys.o)
O3 == sys.oerr = ""          \* building a permitted request never fails / never reuses a ClOrdID / reports are never refused
O3l == O3live(sys, sys.o)
O4 == O4c(sys, sys.o)
O5 == O5c(sys, sys.o)

View == <<sys, nreq, nex>>
Inv_DumpState == Dump => PrintT(<<"STATE", ToJson(hist)>>)
=============================================================================
