---------------------------- MODULE GroupCodecMC ----------------------------
(* TLC generates every well-formed message tree over a small group table with a REFERENCE
   grammar machine (open groups, items, members in any order after the delimiter, nesting)
   and checks on each of them that the decoder's algorithm (GroupCodec!Parse, shaped after
   Codec.decode) inverts Flatten. *)
EXTENDS GroupCodec

CONSTANTS MaxToks
\* group 100 (members 101 delimiter, 102, nested group 200), group 200 (201 delimiter, 202), group 300 (301, 302)
Table == (100 :> <<101, 102, 200>>) @@ (200 :> <<201, 202>>) @@ (300 :> <<301, 302>>)
PlainTop == {1, 2}

VARIABLES tree, open, ntok
vars == <<tree, open, ntok>>
\* open: stack of [g, items, cur]; cur = fields of the item being built
Init == tree = <<>> /\ open = <<>> /\ ntok = 0
Val == ToString(ntok + 1)

LastGroupBlocks(fields, tag) ==      \* tag would be absorbed by a group that precedes it at this level
    \E i \in DOMAIN fields : fields[i].k = "g" /\ tag \in AllMembersDeep(fields[i].tag, Table)

TopPlain(t) == /\ open = <<>> /\ t \in PlainTop /\ t \notin TagsOf(tree) /\ ~LastGroupBlocks(tree, t)
               /\ tree' = Append(tree, F(t, Val)) /\ ntok' = ntok + 1 /\ UNCHANGED open
OpenGroup(g) ==
    /\ g \in DOMAIN Table
    /\ IF open = <<>> THEN g \notin TagsOf(tree) /\ ~LastGroupBlocks(tree, g) /\ g \in {100, 300}
       ELSE LET top == open[Len(open)] IN
            g \in Members(top.g, Table) /\ top.cur # <<>> /\ g \notin TagsOf(top.cur) /\ ~LastGroupBlocks(top.cur, g)
    /\ open' = Append(open, [g |-> g, items |-> <<>>, cur |-> <<>>]) /\ ntok' = ntok + 1 /\ UNCHANGED tree
Member(t) ==
    /\ open # <<>>
    /\ LET n == Len(open)  top == open[n] IN
       /\ t \in Members(top.g, Table) /\ t \notin DOMAIN Table
       /\ IF top.cur = <<>> THEN t = Table[top.g][1] ELSE t \notin TagsOf(top.cur) /\ ~LastGroupBlocks(top.cur, t)
       /\ open' = [open EXCEPT ![n].cur = Append(@, F(t, Val))]
    /\ ntok' = ntok + 1 /\ UNCHANGED tree
NextItem ==
    /\ open # <<>> /\ open[Len(open)].cur # <<>>
    /\ open' = [open EXCEPT ![Len(open)].items = Append(@, open[Len(open)].cur), ![Len(open)].cur = <<>>]
    /\ UNCHANGED <<tree, ntok>>
Close ==
    /\ open # <<>> /\ open[Len(open)].cur # <<>>
    /\ LET n == Len(open)  top == open[n]  fld == G(top.g, Append(top.items, top.cur)) IN
       IF n = 1 THEN tree' = Append(tree, fld) /\ open' = <<>>
       ELSE open' = [i \in 1..(n - 1) |-> IF i = n - 1 THEN [open[i] EXCEPT !.cur = Append(@, fld)] ELSE open[i]] /\ UNCHANGED tree
    /\ UNCHANGED ntok
Next == /\ ntok < MaxToks \/ open # <<>>
        /\ \/ \E t \in PlainTop : ntok < MaxToks /\ TopPlain(t)
           \/ \E g \in DOMAIN Table : ntok < MaxToks /\ OpenGroup(g)
           \/ \E t \in 101..302 : ntok < MaxToks /\ Member(t)
           \/ NextItem \/ Close
Spec == Init /\ [][Next]_vars

Complete == open = <<>>
Inv_GeneratedAreWellFormed == Complete => WellFormedTree(tree, Table)
Inv_RoundTrip == Complete => Parse(Flatten(tree), Table) = tree
=============================================================================
