--------------------------- MODULE SchemaValidEval ---------------------------
(* C15: record = [id, mt, tree, res (per schema variant: "true" | "exc:<Class>")].  The oracle is
   SchemaValid!Valid over the independently translated dictionary; all schema variants (original
   XML and permutations of its <components>) must give the same outcome. *)
EXTENDS SchemaValid
Traces == JsonDeserialize(IOEnv.TRACE_FILE)
Fc(n, ok) == IF ok THEN <<>> ELSE <<n>>
Verdict(r) ==
    LET v == Valid(r.mt, r.tree)
        ds == Defects(r.mt, r.tree)
        res1 == r.res[1]
    IN [id |-> r.id, exp |-> v, why |-> IF ds = {} THEN "" ELSE (CHOOSE x \in ds : (v = "no" => x.sev = "no")).why,
        fails |-> Fc("S_accepts_valid", v = "yes" => \A i \in DOMAIN r.res : r.res[i] = "true")
               \o Fc("S_rejects_invalid", v = "no" => \A i \in DOMAIN r.res : r.res[i] # "true")
               \o Fc("S_error_class", \A i \in DOMAIN r.res : r.res[i] = "true" \/ r.res[i] = "exc:FIXMessageError")
               \o Fc("S_component_order_independent", \A i \in DOMAIN r.res : r.res[i] = res1)]
ASSUME JsonSerialize(IOEnv.OUT_FILE, [i \in DOMAIN Traces |-> Verdict(Traces[i])])
=============================================================================
