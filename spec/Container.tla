------------------------------ MODULE Container ------------------------------
(***************************************************************************)
(* FIXContainer / FIXMessage as an insertion-ordered map from integer tags *)
(* to strings or lists of nested containers (property C18).  A container   *)
(* is a sequence of entries [tag, k |-> "f", val] / [tag, k |-> "g",       *)
(* items]; tags are canonical decimal strings.  Every public method is     *)
(* ApplyOp(c, op) = [res, c'] with res a string, or for the list-valued    *)
(* accessors a record [err, items].  "unspecified" means the property (and *)
(* the documentation) do not fix the outcome: nothing is asserted.         *)
(***************************************************************************)
EXTENDS Integers, Sequences, FiniteSets, TLC

Has(c, t) == \E i \in DOMAIN c : c[i].tag = t
Idx(c, t) == CHOOSE i \in DOMAIN c : c[i].tag = t
Ent(c, t) == c[Idx(c, t)]
IsGrp(c, t) == Has(c, t) /\ Ent(c, t).k = "g"
FEnt(t, v) == [tag |-> t, k |-> "f", val |-> v, items |-> <<>>]
GEnt(t, items) == [tag |-> t, k |-> "g", val |-> "", items |-> items]
Replace(c, t, e) == [i \in DOMAIN c |-> IF c[i].tag = t THEN e ELSE c[i]]
Remove(c, t) == SelectSeq(c, LAMBDA e : e.tag # t)
InsertAt(s, i, x) == SubSeq(s, 1, i) \o <<x>> \o SubSeq(s, i + 1, Len(s))     \* list.insert(i, x), 0 <= i
BadTag(sp) == sp \in {"bad_x", "bad_float", "bad_empty", "bad_floatstr"}
Framing == {"8", "9", "10", "35"}
PairSet(c) == { <<c[i].tag, c[i].val>> : i \in { i \in DOMAIN c : c[i].k = "f" } }

ApplyOp(c, o) ==
    CASE o.op = "set" ->
           IF BadTag(o.sp) THEN [res |-> "err:FIXMessageError", c |-> c]
           ELSE IF Has(c, o.tag) /\ ~o.replace THEN [res |-> "err:DuplicatedTagError", c |-> c]
           ELSE IF Has(c, o.tag) THEN [res |-> "ok", c |-> Replace(c, o.tag, FEnt(o.tag, o.sval))]
           ELSE [res |-> "ok", c |-> Append(c, FEnt(o.tag, o.sval))]
      [] o.op = "del" -> IF Has(c, o.tag) THEN [res |-> "ok", c |-> Remove(c, o.tag)] ELSE [res |-> "unspecified", c |-> c]
      [] o.op = "get" ->
           IF BadTag(o.sp) THEN [res |-> "unspecified", c |-> c]
           ELSE IF ~Has(c, o.tag) THEN [res |-> IF o.dflt = "none" THEN "err:TagNotFoundError" ELSE "val:" \o o.dflt, c |-> c]
           ELSE IF IsGrp(c, o.tag) THEN [res |-> "err:FIXMessageError", c |-> c]
           ELSE [res |-> "val:" \o Ent(c, o.tag).val, c |-> c]
      [] o.op = "contains" -> [res |-> IF BadTag(o.sp) THEN "unspecified" ELSE IF Has(c, o.tag) THEN "true" ELSE "false", c |-> c]
      [] o.op = "add_group" ->
           IF BadTag(o.sp) THEN [res |-> "err:FIXMessageError", c |-> c]
           ELSE IF Has(c, o.tag) /\ ~IsGrp(c, o.tag) THEN [res |-> "unspecified", c |-> c]
           ELSE IF ~Has(c, o.tag) THEN [res |-> "ok", c |-> Append(c, GEnt(o.tag, <<o.item>>))]
           ELSE LET its == Ent(c, o.tag).items
                    n == Len(its) IN
                IF o.index = -1 THEN [res |-> "ok", c |-> Replace(c, o.tag, GEnt(o.tag, Append(its, o.item)))]
                ELSE IF o.index >= 0 THEN [res |-> "ok", c |-> Replace(c, o.tag, GEnt(o.tag, InsertAt(its, IF o.index > n THEN n ELSE o.index, o.item)))]
                ELSE [res |-> "unspecified", c |-> c]
      \* an item that is not a container / dict of integer tags, or spells one tag twice: refused, nothing changes
      \* (which of the library's message errors is raised is left open: o.bad names the defect for the driver only)
      [] o.op = "add_group_bad" -> [res |-> "err:refused", c |-> c]
      \* a value set inside the index-th item of a group, through the item object the accessor returned
      [] o.op = "nested_set" ->
           IF ~IsGrp(c, o.tag) \/ o.index < 0 \/ o.index >= Len(Ent(c, o.tag).items) THEN [res |-> "unspecified", c |-> c]
           ELSE LET its == Ent(c, o.tag).items
                    it == its[o.index + 1]
                    it2 == IF Has(it, o.ntag) THEN Replace(it, o.ntag, FEnt(o.ntag, o.sval)) ELSE Append(it, FEnt(o.ntag, o.sval))
                IN [res |-> "ok", c |-> Replace(c, o.tag, GEnt(o.tag, [i \in DOMAIN its |-> IF i = o.index + 1 THEN it2 ELSE its[i]]))]
      [] o.op = "set_group" ->
           IF BadTag(o.sp) THEN [res |-> "err:FIXMessageError", c |-> c]
           ELSE IF Has(c, o.tag) THEN [res |-> "err:DuplicatedTagError", c |-> c]
           ELSE [res |-> "ok", c |-> Append(c, GEnt(o.tag, o.items))]
      [] o.op = "glist" ->
           [c |-> c, res |-> IF ~Has(c, o.tag) THEN [err |-> "TagNotFoundError", items |-> <<>>]
                             ELSE IF ~IsGrp(c, o.tag) THEN [err |-> "UnmappedRepeatedGrpError", items |-> <<>>]
                             ELSE [err |-> "", items |-> Ent(c, o.tag).items]]
      [] o.op = "gindex" ->
           [c |-> c, res |-> IF ~Has(c, o.tag) THEN [err |-> "TagNotFoundError", items |-> <<>>]
                             ELSE IF ~IsGrp(c, o.tag) THEN [err |-> "UnmappedRepeatedGrpError", items |-> <<>>]
                             ELSE IF o.index < 0 THEN [err |-> "unspecified", items |-> <<>>]
                             ELSE IF o.index >= Len(Ent(c, o.tag).items) THEN [err |-> "TagNotFoundError", items |-> <<>>]
                             ELSE [err |-> "", items |-> <<Ent(c, o.tag).items[o.index + 1]>>]]
      [] o.op = "gtag" ->
           [c |-> c, res |-> IF ~Has(c, o.tag) THEN [err |-> "TagNotFoundError", items |-> <<>>]
                             ELSE IF ~IsGrp(c, o.tag) THEN [err |-> "UnmappedRepeatedGrpError", items |-> <<>>]
                             ELSE LET its == Ent(c, o.tag).items
                                      hit == { i \in DOMAIN its : \E j \in DOMAIN its[i] : its[i][j].tag = o.gtag /\ its[i][j].k = "f" /\ its[i][j].val = o.gval }
                                  IN IF hit = {} THEN [err |-> "TagNotFoundError", items |-> <<>>]
                                     ELSE [err |-> "", items |-> <<its[CHOOSE i \in hit : \A x \in hit : i <= x]>>]]
      [] o.op = "eqc" ->      \* equality with another container
           [c |-> c, res |-> IF o.other = c THEN "true"
                             ELSE IF PairSet(o.other) # PairSet(c) \/ { e.tag : e \in { c[i] : i \in DOMAIN c } } # { e.tag : e \in { o.other[i] : i \in DOMAIN o.other } }
                                  THEN "false"
                             ELSE "unspecified"]          \* same content in another order, or groups that differ
      [] o.op = "eqd" ->      \* equality with a plain dict of simple tags, ignoring the four framing tags on both sides
           LET mine == { p \in PairSet(c) : p[1] \notin Framing }
               theirs == { <<o.pairs[i][1], o.pairs[i][2]>> : i \in DOMAIN o.pairs }
               theirsCore == { p \in theirs : p[1] \notin Framing }
               hasGroup == \E i \in DOMAIN c : c[i].k = "g" /\ c[i].tag \notin Framing
           IN [c |-> c, res |-> IF hasGroup THEN "unspecified" ELSE IF mine = theirsCore THEN "true" ELSE "false"]
      [] o.op = "pickle" -> [c |-> c, res |-> "true"]
      [] OTHER -> [res |-> "unspecified", c |-> c]

RECURSIVE ApplyAll(_, _, _)
ApplyAll(ops, i, c) == IF i > Len(ops) THEN c ELSE ApplyAll(ops, i + 1, ApplyOp(c, ops[i]).c)
=============================================================================
