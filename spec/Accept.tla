------------------------------- MODULE Accept -------------------------------
(* Behaviours of the acceptor transport life-cycle (AcceptFn) under an arbitrary environment: peers
   connect (also while a connection is attached), the attached or any earlier connection drops, peers of
   any accepted connection send session traffic, the application sends, disconnects or calls connect()
   again.  Clauses A1..A6 are checked on every step; the hist variable (hidden by VIEW) is printed for
   the replay on a real AsyncFIXDummyServer. *)
EXTENDS AcceptFn, Json

CONSTANTS Depth, MaxConn, MaxN, Dump
VARIABLES sv, hist, d, lastout
vars == <<sv, hist, d, lastout>>

XFrames ==
    { RF("LOGON", 0, FALSE), RF("LOGON", 1, FALSE), RF("APP", 0, FALSE), RF("APP", 1, FALSE), RF("LOGOUT", 0, FALSE),
      [RF("TR", 0, FALSE) EXCEPT !.trid = "T1"], RF("HB", 0, FALSE),
      [RF("RR", 0, FALSE) EXCEPT !.bv = 1], [RF("APP", 0, FALSE) EXCEPT !.hdr = "wrongS"],
      [RF("LOGON", 0, FALSE) EXCEPT !.hdr = "nohb"] }
XSends == { RS("APP", "11=s1"), RS("LOGOUT", ""), RS("LOGON", "") }
XEvents ==
    { [t |-> "start"], [t |-> "accept"] }
    \cup { [t |-> "drop", c |-> c] : c \in 1..MaxConn }
    \cup { [t |-> "appdisc", st |-> st, logout |-> lo] : st \in {WCONN, BROKEN}, lo \in {"none", "text"} }
    \cup { [t |-> "frame", c |-> c, f |-> f] : c \in 1..MaxConn, f \in XFrames }
    \cup { [t |-> "send", m |-> m] : m \in XSends }

Init == sv = Sv0 /\ hist = <<>> /\ d = 0 /\ lastout = XOut0
Enabled(ev) ==
    CASE ev.t = "start" -> ~sv.tasks \/ sv.cur # 0          \* a second listener on the same port is not generated
      [] ev.t = "accept" -> sv.tasks /\ sv.n < MaxConn
      [] ev.t \in {"drop", "frame"} -> ev.c <= sv.n
      [] ev.t = "appdisc" -> sv.tasks
      [] OTHER -> sv.tasks
Next == /\ d < Depth
        /\ \E ev \in XEvents :
             /\ Enabled(ev)
             /\ LET r == Step(sv, ev, {}) IN sv' = r.sv /\ lastout' = r.out
             /\ hist' = Append(hist, ev) /\ d' = d + 1
Spec == Init /\ [][Next]_vars
Bound == sv.ep.nin <= MaxN /\ sv.ep.nout <= MaxN
View == <<[sv EXCEPT !.ep = [@ EXCEPT !.wrote = <<>>, !.deliv = <<>>, !.cb = <<>>, !.exc = "none", !.last = 0]], d>>

LastEv == hist'[Len(hist')]
A_X == [][XFails(ObsSv(sv), LastEv, lastout', ObsSv(sv'), sv.n + 1) = <<>>]_vars
\* non-vacuity: these must be refuted
NeverSecondSession == ~(sv.cur >= 2 /\ sv.ep.cs = "ACTIVE")
NeverRefused == ~(sv.n >= 2 /\ sv.cur = 1 /\ sv.ep.cs = "ACTIVE")
NeverSelfDetach == ~(sv.cur = 0 /\ sv.n >= 1 /\ sv.ep.cs = WCONN)

Inv_DumpState == Dump => PrintT(<<"STATE", ToJson(hist)>>)
AlphabetDump == PrintT(<<"ALPHA", ToJson(XEvents)>>)
=============================================================================
