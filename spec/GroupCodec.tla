----------------------------- MODULE GroupCodec -----------------------------
(***************************************************************************)
(* Message tree <-> token list (property C01).                             *)
(*                                                                         *)
(* A tree is a sequence of fields; a field is [k |-> "f", tag, val] or     *)
(* [k |-> "g", tag, items] with items a non-empty sequence of trees.       *)
(* Table: group tag -> sequence of member tags (first = delimiter).        *)
(*                                                                         *)
(*   Flatten(t)          what the encoder must emit for the body           *)
(*   Parse(toks, table)  the decoder's group-context algorithm as a step   *)
(*                       machine with exactly the branches of Codec.decode *)
(*   WellFormedTree      the trees the property quantifies over            *)
(***************************************************************************)
EXTENDS Integers, Sequences, FiniteSets, TLC

F(tag, val) == [k |-> "f", tag |-> tag, val |-> val]
G(tag, items) == [k |-> "g", tag |-> tag, items |-> items]
Tok(tag, val) == [tag |-> tag, val |-> val]

IsGroupTag(tag, table) == tag \in DOMAIN table
Members(g, table) == { table[g][i] : i \in DOMAIN table[g] }

RECURSIVE Flatten(_)
RECURSIVE FlattenItems(_, _)
Flatten(t) ==
    IF t = <<>> THEN <<>>
    ELSE LET h == Head(t) IN
         (IF h.k = "f" THEN <<Tok(h.tag, h.val)>>
          ELSE <<Tok(h.tag, ToString(Len(h.items)))>> \o FlattenItems(h.items, 1))
         \o Flatten(Tail(t))
FlattenItems(items, i) == IF i > Len(items) THEN <<>> ELSE Flatten(items[i]) \o FlattenItems(items, i + 1)

TagsOf(fields) == { fields[i].tag : i \in DOMAIN fields }
\* FIXContainer.add_group(tag, item): append to an existing group of that tag, else create it at the end
AddGroup(fields, tag, item) ==
    IF \E i \in DOMAIN fields : fields[i].tag = tag /\ fields[i].k = "g"
    THEN [i \in DOMAIN fields |-> IF fields[i].tag = tag /\ fields[i].k = "g"
                                  THEN [fields[i] EXCEPT !.items = Append(@, item)] ELSE fields[i]]
    ELSE Append(fields, G(tag, <<item>>))

\* decoder state: root fields + stack of open group contexts [tag, fields]; top of stack = last element
\* close the top context into its parent (the context below, or the root)
CloseTop(st) ==
    LET n == Len(st.stack)
        top == st.stack[n]
    IN IF n = 1 THEN [st EXCEPT !.root = AddGroup(@, top.tag, top.fields), !.stack = <<>>]
       ELSE [st EXCEPT !.stack = [i \in 1..(n - 1) |-> IF i = n - 1
                                     THEN [st.stack[i] EXCEPT !.fields = AddGroup(@, top.tag, top.fields)]
                                     ELSE st.stack[i]]]
RECURSIVE PopWhileNotMember(_, _, _)
PopWhileNotMember(st, tag, table) ==
    IF st.stack # <<>> /\ tag \notin Members(st.stack[Len(st.stack)].tag, table)
    THEN PopWhileNotMember(CloseTop(st), tag, table) ELSE st

ParseStep(st, tk, table) ==
    IF st.err # "" THEN st
    ELSE IF IsGroupTag(tk.tag, table)
    THEN LET s1 == IF st.stack # <<>> THEN PopWhileNotMember(st, tk.tag, table) ELSE st
         IN [s1 EXCEPT !.stack = Append(@, [tag |-> tk.tag, fields |-> <<>>])]
    ELSE IF st.stack # <<>>
    THEN LET s1 == PopWhileNotMember(st, tk.tag, table) IN
         IF s1.stack = <<>>
         THEN IF tk.tag \in TagsOf(s1.root) THEN [s1 EXCEPT !.err = "repeated tag after group"]
              ELSE [s1 EXCEPT !.root = Append(@, F(tk.tag, tk.val))]
         ELSE LET n == Len(s1.stack)
                  top == s1.stack[n]
              IN IF tk.tag \in TagsOf(top.fields)
                 THEN \* the item already has this field: the item is complete, the next one starts
                      LET s2 == CloseTop(s1)
                          s3 == [s2 EXCEPT !.stack = Append(@, [tag |-> top.tag, fields |-> <<F(tk.tag, tk.val)>>])]
                      IN s3
                 ELSE [s1 EXCEPT !.stack[n].fields = Append(@, F(tk.tag, tk.val))]
    ELSE IF tk.tag \in TagsOf(st.root) THEN [st EXCEPT !.root = [i \in DOMAIN st.root |->
                                                   IF st.root[i].tag = tk.tag THEN F(tk.tag, "#RepeatingTagError#") ELSE st.root[i]]]
         ELSE [st EXCEPT !.root = Append(@, F(tk.tag, tk.val))]

RECURSIVE ParseAll(_, _, _, _)
ParseAll(st, toks, i, table) == IF i > Len(toks) THEN st ELSE ParseAll(ParseStep(st, toks[i], table), toks, i + 1, table)
\* body tokens followed by the CheckSum field, which closes every open group
Parse(toks, table) ==
    LET st == ParseAll([root |-> <<>>, stack |-> <<>>, err |-> ""], Append(toks, Tok(10, "000")), 1, table)
    IN IF st.err # "" THEN <<F(0, st.err)>>
       ELSE SelectSeq(st.root, LAMBDA f : f.tag # 10)

(* ---- well-formed trees ------------------------------------------------------ *)
HeaderTags == {8, 9, 35, 10, 34, 49, 52, 56}
RECURSIVE AllMembersDeep(_, _)
AllMembersDeep(g, table) ==      \* members of g and of every group nested in it (by the table)
    Members(g, table) \cup UNION { AllMembersDeep(m, table) : m \in { x \in Members(g, table) : x \in DOMAIN table /\ x # g } }

RECURSIVE WFFields(_, _, _)
RECURSIVE WFItems(_, _, _)
\* fields of one container; allowed = set of tags allowed here ({} = anything outside HeaderTags, i.e. top level)
WFFields(fs, allowed, table) ==
    /\ \A i, j \in DOMAIN fs : fs[i].tag = fs[j].tag => i = j                 \* no repeated tag
    /\ \A i \in DOMAIN fs :
         LET f == fs[i] IN
         /\ IF allowed = {} THEN f.tag \notin HeaderTags ELSE f.tag \in allowed
         /\ IF f.k = "f" THEN f.tag \notin DOMAIN table /\ Len(f.val) > 0
            ELSE /\ f.tag \in DOMAIN table /\ f.items # <<>>
                 /\ WFItems(f.items, f.tag, table)
                 \* what follows the group at this level must not be absorbed by it
                 /\ \A j \in DOMAIN fs : j > i => fs[j].tag \notin AllMembersDeep(f.tag, table)
WFItems(items, g, table) ==
    \A i \in DOMAIN items :
        /\ items[i] # <<>> /\ items[i][1].tag = table[g][1]                   \* every item starts with the delimiter
        /\ WFFields(items[i], Members(g, table), table)
WellFormedTree(t, table) == WFFields(t, {}, table)
=============================================================================
