------------------------------ MODULE AcceptFn ------------------------------
(***************************************************************************)
(* The transport life-cycle of an AsyncFIXDummyServer: connect() (tasks +  *)
(* listener), incoming connections handled by _handle_accept, loss of the  *)
(* attached connection, an application-side disconnect(), and the session  *)
(* traffic of Session1/Endpoint on whichever connection is attached.       *)
(* (Beyond the 20 listed properties: grown from connection_server.py.)     *)
(* Constant-level module: state record, step function, clauses A1..A6.     *)
(*                                                                         *)
(* sv == [ep, cur, n, open, tasks]                                         *)
(*   ep     the Endpoint record of the one connection object (role is      *)
(*          ACCEPTOR from construction)                                    *)
(*   cur    id of the incoming connection whose reader/writer pair is      *)
(*          attached, 0 = none; connections are numbered 1, 2, .. in the   *)
(*          order in which they were accepted                              *)
(*   n      number of connections accepted so far                          *)
(*   open   ids whose server-side writer has not been closed               *)
(*   tasks  connect() has launched the reader and heartbeat tasks          *)
(* Out (per step): ep.cb / ep.deliv / ep.exc as in Endpoint, plus          *)
(*   wrote  <<[c, kind, seq]>> frames written and the connection they were *)
(*          written to; closed  ids whose writer was closed in this step   *)
(*                                                                         *)
(* Named deviation: KF_AcceptFallThrough = TRUE is the pinned tree's        *)
(* _handle_accept, which closes a second incoming connection and then      *)
(* falls through: the closed pair replaces the live reader/writer, the     *)
(* state is forced back to NETWORK_CONN_ESTABLISHED and on_connect fires   *)
(* again.  FALSE (the code since the repair) returns after closing.        *)
(***************************************************************************)
EXTENDS Session1

CONSTANT KF_AcceptFallThrough

Sv0 == [ep |-> [NewEndpoint(1, 1) EXCEPT !.role = "ACCEPTOR"], cur |-> 0, n |-> 0, open |-> {}, tasks |-> FALSE]
XOut0 == [cb |-> <<>>, deliv |-> <<>>, exc |-> "none", wrote |-> <<>>, closed |-> {}]
R(sv, out) == [sv |-> sv, out |-> out]

WroteOn(c, ws) == [i \in DOMAIN ws |-> [c |-> c, kind |-> ws[i].kind, seq |-> ws[i].seq]]
\* outputs of an Endpoint step taken while connection c was attached
EpOut(c, e) == [cb |-> e.cb, deliv |-> e.deliv, exc |-> e.exc, wrote |-> WroteOn(c, e.wrote), closed |-> {}]
\* the endpoint detached itself (disconnect() closes the writer it was attached to)
After(sv, e) ==
    LET o == EpOut(sv.cur, e) IN
    IF sv.cur # 0 /\ ~e.sock
    THEN R([sv EXCEPT !.ep = e, !.cur = 0, !.open = @ \ {sv.cur}], [o EXCEPT !.closed = {sv.cur}])
    ELSE R([sv EXCEPT !.ep = e], o)

\* ev.t: "start"  the application calls connect()
\*       "accept" a new incoming connection (it gets id sv.n + 1)
\*       "drop"   ev.c  EOF on the reader of connection c
\*       "appdisc" ev.st, ev.logout  application calls disconnect(st, logout text or none)
\*       "frame"  ev.c, ev.f  the peer of connection c sends relative frame f (Session1!ResolveFrame)
\*       "send"   ev.m  the application sends relative message m (Session1!ResolveSend)
Step(sv, ev, declined) ==
    LET ep == Clr(sv.ep) IN
    CASE ev.t = "start" ->
           IF sv.ep.sock THEN R(sv, [XOut0 EXCEPT !.exc = "FIXConnectionError"])
           ELSE R([sv EXCEPT !.tasks = TRUE], XOut0)
      [] ev.t = "accept" ->
           LET k == sv.n + 1 IN
           IF sv.ep.sock
           THEN IF KF_AcceptFallThrough
                THEN R([sv EXCEPT !.n = k, !.cur = k, !.ep = Cb(Attach(ep, "KEEP"), "connect")],
                       [XOut0 EXCEPT !.closed = {k}, !.cb = <<"connect">>])
                ELSE R([sv EXCEPT !.n = k], [XOut0 EXCEPT !.closed = {k}])
           ELSE R([sv EXCEPT !.n = k, !.cur = k, !.open = @ \cup {k}, !.ep = Cb(Attach(ep, "KEEP"), "connect")],
                  [XOut0 EXCEPT !.cb = <<"connect">>])
      [] ev.t = "drop" ->
           IF ev.c = sv.cur /\ sv.cur # 0 /\ sv.ep.sock /\ ev.c \in sv.open THEN After(sv, ReadEOF(ep, TRUE))
           ELSE R([sv EXCEPT !.ep = ep], XOut0)
      [] ev.t = "appdisc" -> After(sv, Disconnect(ep, ev.st, ev.logout, TRUE))
      [] ev.t = "frame" ->
           IF ev.c = sv.cur /\ sv.cur # 0 /\ ev.c \in sv.open
           THEN After(sv, Handle(sv.ep, [t |-> "frame", f |-> ResolveFrame(sv.ep, ev.f), now |-> NOW], declined))
           ELSE R([sv EXCEPT !.ep = ep], XOut0)
      [] ev.t = "send" -> After(sv, Handle(sv.ep, [t |-> "send", m |-> ResolveSend(sv.ep, ev.m), up |-> TRUE], declined))
      [] OTHER -> R([sv EXCEPT !.ep = ep], XOut0)

(* ---- observation: what the harness can see of the real server -------------------------- *)
\* pre / post = [cs, cur, open (set), nin, nout, sock]
ObsSv(sv) == [cs |-> sv.ep.cs, cur |-> sv.cur, open |-> sv.open, nin |-> sv.ep.nin, nout |-> sv.ep.nout, sock |-> sv.ep.sock]

(* ---- clauses over one step (pre, ev, out, post) ------------------------------------------- *)
Count(cb, x) == Cardinality({i \in DOMAIN cb : cb[i] = x})
\* A1 single connection: a connection arriving while another is attached is closed at once and
\*    disturbs nothing - the attached pair, the state, the counters stay, no callback fires, nothing is written
A1(pre, ev, out, post, newid) ==
    (ev.t = "accept" /\ pre.cur # 0) =>
        /\ post.cur = pre.cur /\ post.cs = pre.cs /\ post.nin = pre.nin /\ post.nout = pre.nout
        /\ newid \in out.closed /\ pre.cur \notin out.closed /\ post.open = pre.open
        /\ out.cb = <<>> /\ out.wrote = <<>>
\* A2 a connection arriving while none is attached becomes the attached one: NETWORK_CONN_ESTABLISHED, exactly one
\*    on_connect, nothing closed, the session counters are the ones left by the previous connection
A2(pre, ev, out, post, newid) ==
    (ev.t = "accept" /\ pre.cur = 0) =>
        /\ post.cur = newid /\ post.cs = NCE /\ post.sock /\ Count(out.cb, "connect") = 1
        /\ out.closed = {} /\ post.open = pre.open \cup {newid}
        /\ post.nin = pre.nin /\ post.nout = pre.nout
\* A3 every frame is written to the connection that was attached when the step began, which is open
A3(pre, out) == \A i \in DOMAIN out.wrote : out.wrote[i].c = pre.cur /\ pre.cur # 0 /\ pre.cur \in pre.open
\* A4 detaching closes exactly the attached transport, ends in a disconnected state with one on_disconnect;
\*    a transport the server stays attached to is never closed, and on_connect only fires for an accept
A4(pre, ev, out, post) ==
    /\ (pre.cur # 0 /\ post.cur = 0) =>
           (out.closed = {pre.cur} /\ Disconnected(post.cs) /\ ~post.sock /\ Count(out.cb, "disconnect") = 1)
    /\ (pre.cur # 0 /\ post.cur = pre.cur) => (pre.cur \notin out.closed /\ post.sock /\ ~Disconnected(post.cs))
    /\ (ev.t # "accept" => (post.cur \in {pre.cur, 0} /\ Count(out.cb, "connect") = 0))
    /\ (post.cur = 0 <=> ~post.sock)
\* A5 connect() on a server with an attached connection is refused and changes nothing
A5(pre, ev, out, post) ==
    (ev.t = "start" /\ pre.cur # 0) => (out.exc = "FIXConnectionError" /\ post = pre /\ out.cb = <<>> /\ out.wrote = <<>>)
\* A6 traffic or EOF on a connection that is not the attached one (a refused one, an earlier one) has no effect
A6(pre, ev, out, post) ==
    (ev.t \in {"frame", "drop"} /\ ev.c # pre.cur) =>
        (post = pre /\ out.cb = <<>> /\ out.wrote = <<>> /\ out.deliv = <<>> /\ out.closed = {})

XClauses == <<"A1", "A2", "A3", "A4", "A5", "A6">>
XFails(pre, ev, out, post, newid) ==
    LET F(name, ok) == IF ok THEN <<>> ELSE <<name>> IN
    F("A1", A1(pre, ev, out, post, newid)) \o F("A2", A2(pre, ev, out, post, newid)) \o F("A3", A3(pre, out))
    \o F("A4", A4(pre, ev, out, post)) \o F("A5", A5(pre, ev, out, post)) \o F("A6", A6(pre, ev, out, post))
=============================================================================
