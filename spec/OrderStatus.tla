----------------------------- MODULE OrderStatus -----------------------------
(***************************************************************************)
(* FIXNewOrderSingle.change_status as a total function over its finite     *)
(* domain (property C16), and the lifecycle laws.                          *)
(*   status, reported status : the 15 OrdStatus codes (Z = CREATED)        *)
(*   kind    : "8" ExecutionReport, "9" OrderCancelReject, "F" cancel      *)
(*             request, "G" replace request, "X" any unsupported kind      *)
(*   et      : ExecType code, "-" = omitted                                *)
(* Cell(st, kind, et, ms) \in {"change", "nochange", "error"} is the       *)
(* transcription of the code's tables; Result adds the raise_on_err flag.  *)
(***************************************************************************)
EXTENDS Integers, Sequences, FiniteSets, TLC

Statuses == {"Z", "0", "1", "2", "3", "4", "6", "7", "8", "9", "A", "B", "C", "D", "E"}
Kinds == {"8", "9", "F", "G", "X"}
ExecTypes == {"0", "3", "4", "5", "6", "7", "8", "9", "A", "B", "C", "D", "E", "F", "G", "H", "I", "-"}
CREATED == "Z"
ORDNEW == "0"
PARTFILLED == "1"
FILLED == "2"
DONEFORDAY == "3"
CANCELED == "4"
PENDCANCEL == "6"
STOPPED == "7"
REJECTED == "8"
SUSPENDED == "9"
PENDNEW == "A"
CALCULATED == "B"
EXPIRED == "C"
AFB == "D"
PENDREPLACE == "E"
Finished == {FILLED, CANCELED, REJECTED, EXPIRED}
Acknowledged == Statuses \ {CREATED, PENDNEW}

\* one row of a table: explicit cells (a function on a subset of Statuses) plus a default
Row(cells, dflt, ms) == IF ms \in DOMAIN cells THEN cells[ms] ELSE dflt
T == "change"
N == "nochange"
Err == "error"

ExecReportCell(st, et, ms) ==
    CASE st = CREATED -> Row((PENDNEW :> T) @@ (REJECTED :> T), Err, ms)
      [] st = PENDNEW -> Row((REJECTED :> T) @@ (ORDNEW :> T) @@ (FILLED :> T) @@ (PARTFILLED :> T) @@ (CANCELED :> T) @@ (SUSPENDED :> T), Err, ms)
      [] st = ORDNEW -> Row((ORDNEW :> N) @@ (PENDNEW :> Err) @@ (CREATED :> Err) @@ (AFB :> Err), T, ms)
      [] st \in Finished -> N
      [] st = SUSPENDED -> Row((ORDNEW :> T) @@ (PARTFILLED :> T) @@ (CANCELED :> T) @@ (SUSPENDED :> N), Err, ms)
      [] st = PARTFILLED -> Row((FILLED :> T) @@ (PARTFILLED :> T) @@ (PENDREPLACE :> T) @@ (PENDCANCEL :> T) @@ (CANCELED :> T)
                               @@ (EXPIRED :> T) @@ (SUSPENDED :> T) @@ (STOPPED :> T), Err, ms)
      [] st = PENDCANCEL -> Row((CANCELED :> T) @@ (CREATED :> Err), N, ms)
      [] st = PENDREPLACE ->
            IF et = "5" THEN Row((ORDNEW :> T) @@ (PARTFILLED :> T) @@ (FILLED :> T) @@ (CANCELED :> T), Err, ms)
            ELSE Row((CREATED :> Err) @@ (AFB :> Err), N, ms)
      [] OTHER -> Err          \* statuses without a row (3, 7, B, D): default table {None: FIXError}

CancelRejectCell(st, ms) ==
    CASE st = CREATED -> Err
      [] st \in Finished -> N
      [] st \in {PENDCANCEL, PENDREPLACE} -> Row((CREATED :> Err) @@ (AFB :> Err), T, ms)   \* pinned by the repo's tests
      [] OTHER -> Row((CREATED :> Err) @@ (AFB :> Err) @@ (PENDNEW :> Err), T, ms)

RequestCell(st) ==
    CASE st \in {PENDCANCEL, PENDREPLACE} -> N
      [] st \in {ORDNEW, SUSPENDED, PARTFILLED} -> T
      [] OTHER -> Err

Cell(st, kind, et, ms) ==
    CASE kind = "8" -> ExecReportCell(st, et, ms)
      [] kind = "9" -> CancelRejectCell(st, ms)
      [] kind \in {"F", "G"} -> RequestCell(st)
      [] OTHER -> Err

\* what change_status returns: "status:<ms>", "none", or "exc:FIXError"
Result(st, kind, et, ms, raise) ==
    LET c == Cell(st, kind, et, ms) IN
    IF c = T THEN "status:" \o ms ELSE IF c = N THEN "none" ELSE IF raise THEN "exc:FIXError" ELSE "none"

(* ---- the laws of C16 as predicates over an arbitrary result function R(st, kind, et, ms, raise) ---- *)
L1(st, kind, et, ms, raise, res) ==          \* closed; the library's error only, and only when asked to raise
    /\ res \in {"status:" \o ms, "none", "exc:FIXError"}
    /\ res = "exc:FIXError" => raise
L2(st, kind, et, ms, raise, res) ==          \* finished statuses are absorbing
    st \in Finished => res \in {"none", "exc:FIXError"}
L3(st, kind, et, ms, raise, res) ==          \* no report moves an order back to created, or from an acknowledged status back to pending-new
    kind \in {"8", "9"} =>
        /\ res # "status:" \o CREATED
        /\ (st \in Acknowledged /\ ms = PENDNEW) => res # "status:" \o PENDNEW
L4(st, kind, et, ms, raise, res) ==          \* a just-created order accepts only pending-new or rejected
    (st = CREATED /\ res = "status:" \o ms) => ms \in {PENDNEW, REJECTED}
L5(st, kind, et, ms, raise, res) ==          \* cancel / replace requests
    kind \in {"F", "G"} =>
        IF st \in {ORDNEW, PARTFILLED, SUSPENDED} THEN res = "status:" \o ms
        ELSE IF st \in {PENDCANCEL, PENDREPLACE} THEN res = "none"
        ELSE res = (IF raise THEN "exc:FIXError" ELSE "none")
\* known finding (test-pinned cells)
Trig_PinnedCancelRejectPendingNew(st, kind, ms) == kind = "9" /\ st \in {PENDCANCEL, PENDREPLACE} /\ ms = PENDNEW

LawFails(st, kind, et, ms, raise, res) ==
    LET Fc(n, ok) == IF ok THEN <<>> ELSE <<n>> IN
    Fc("L1", L1(st, kind, et, ms, raise, res)) \o Fc("L2", L2(st, kind, et, ms, raise, res)) \o Fc("L3", L3(st, kind, et, ms, raise, res))
    \o Fc("L4", L4(st, kind, et, ms, raise, res)) \o Fc("L5", L5(st, kind, et, ms, raise, res))
=============================================================================
