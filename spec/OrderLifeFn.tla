----------------------------- MODULE OrderLifeFn -----------------------------
(***************************************************************************)
(* A client order object (asyncfix FIXNewOrderSingle, transcribed method   *)
(* by method) against an exchange that follows the FIX 4.4 order state     *)
(* change matrices (groups A vanilla, B cancel, C cancel/replace, plus     *)
(* unsolicited cancel, expire, suspend/resume), with one FIFO queue per    *)
(* direction so that requests and reports cross in flight (property C17).  *)
(*                                                                         *)
(*  o   client object: st, clord, orig, cnt, qty, px, cum, leaves          *)
(*  ex  exchange: st, qty, px, cum, live (ClOrdID the order is live under),*)
(*      pend (the request being considered, or none)                       *)
(*  c2e / e2c  messages in flight                                          *)
(***************************************************************************)
EXTENDS OrderStatus, Json

CONSTANTS Qty0

NoPend == [kind |-> "none", id |-> "", qty |-> 0, px |-> 0]
Root == "r"
Id(n) == Root \o "--" \o ToString(n)

(* ------------------------- client object (code-shaped) ------------------------- *)
CanRequest(st) == Cell(st, "F", "-", PENDCANCEL) = T
NewReq(c) == [c EXCEPT !.cnt = @ + 1, !.clord = Id(c.cnt + 1), !.st = PENDNEW]
CancelReq(c) == [c EXCEPT !.orig = c.clord, !.cnt = @ + 1, !.clord = Id(c.cnt + 1), !.st = PENDCANCEL]
ReplaceReq(c) == [c EXCEPT !.orig = c.clord, !.cnt = @ + 1, !.clord = Id(c.cnt + 1), !.st = PENDREPLACE]
\* process_execution_report
ProcER(c, m) ==
    LET cell == Cell(c.st, "8", m.et, m.os)
        c1 == [c EXCEPT !.leaves = m.leaves, !.cum = m.cum]
        c2 == IF m.et = "5" THEN [c1 EXCEPT !.px = m.px, !.qty = m.qty, !.orig = ""] ELSE c1
    IN IF cell = T THEN [c2 EXCEPT !.st = m.os] ELSE c2
\* process_cancel_rej_report: status as reported, the request's ClOrdID is spent, the order lives on under the original one
ProcCR(c, m) ==
    LET cell == Cell(c.st, "9", "-", m.os)
        c1 == IF m.os = REJECTED THEN [c EXCEPT !.leaves = 0] ELSE c
        c2 == IF cell = T THEN [c1 EXCEPT !.st = m.os] ELSE c1
    IN IF c2.orig # "" THEN [c2 EXCEPT !.clord = c2.orig, !.orig = ""] ELSE c2

(* ------------------------- exchange (FIX 4.4 matrices) ------------------------- *)
Live(st) == st \in {ORDNEW, PARTFILLED, SUSPENDED}
Reported(e) == IF e.pend.kind = "cancel" THEN PENDCANCEL ELSE IF e.pend.kind = "replace" THEN PENDREPLACE ELSE e.st
LeavesOf(e) == IF e.st \in {ORDNEW, PARTFILLED, SUSPENDED, PENDNEW, "recv"} THEN e.qty - e.cum ELSE 0
ER(e, clord, orig, et, os) == [t |-> "er", clord |-> clord, orig |-> orig, et |-> et, os |-> os, cum |-> e.cum,
                              leaves |-> LeavesOf(e), qty |-> e.qty, px |-> e.px]
CR(e, clord, orig, os) == [t |-> "cr", clord |-> clord, orig |-> orig, os |-> os]
StatusByFill(e) == IF e.cum = 0 THEN ORDNEW ELSE IF e.cum < e.qty THEN PARTFILLED ELSE FILLED

\* The whole system state is one record s = [o, ex, c2e, e2c, used, oerr] and every action is
\* Guard(s, ev) / Do(s, ev), so that the same step function serves TLC's exploration and the
\* evaluation of recorded executions of the real order object (OrderLifeEval).
S0 == [o |-> [st |-> CREATED, clord |-> Root, orig |-> "", cnt |-> 0, qty |-> Qty0, px |-> 10, cum |-> 0, leaves |-> 0],
       ex |-> [st |-> "none", qty |-> 0, px |-> 0, cum |-> 0, live |-> "", pend |-> NoPend],
       c2e |-> <<>>, e2c |-> <<>>, used |-> {}, oerr |-> ""]

ClientActs == {"c_new", "c_cancel", "c_replace", "c_recv"}
ExchSteps == {"e_pending_new", "e_ack", "e_reject", "e_fill", "e_pending_request", "e_cancelled", "e_replaced",
              "e_request_reject", "e_expire", "e_unsolicited_cancel", "e_suspend", "e_resume"}

Guard(s, ev) ==
    LET o == s.o  ex == s.ex IN
    CASE ev.a = "c_new" -> o.st = CREATED
      [] ev.a = "c_cancel" -> CanRequest(o.st)
      [] ev.a = "c_replace" -> CanRequest(o.st) /\ (ev.dq # 0 \/ ev.dp # 0) /\ o.qty + ev.dq > 0
      [] ev.a = "c_recv" -> s.e2c # <<>>
      [] ev.a = "e_recv" -> s.c2e # <<>>
      [] ev.a = "e_pending_new" -> ex.st = "recv"
      [] ev.a \in {"e_ack", "e_reject"} -> ex.st \in {"recv", PENDNEW}
      [] ev.a = "e_fill" -> ex.st \in {ORDNEW, PARTFILLED}
      [] ev.a = "e_pending_request" -> ex.pend.kind # "none" /\ Live(ex.st)
      [] ev.a = "e_cancelled" -> ex.pend.kind = "cancel" /\ Live(ex.st)
      \* (the matrices do not define a replace of a suspended order: the exchange resumes or rejects first)
      [] ev.a = "e_replaced" -> ex.pend.kind = "replace" /\ ex.st \in {ORDNEW, PARTFILLED}
      [] ev.a = "e_request_reject" -> ex.pend.kind # "none"
      [] ev.a \in {"e_expire", "e_unsolicited_cancel", "e_suspend"} -> ex.st \in {ORDNEW, PARTFILLED} /\ ex.pend.kind = "none"
      [] ev.a = "e_resume" -> ex.st = SUSPENDED
      [] OTHER -> FALSE

EmitS(s, e2, msg) == [s EXCEPT !.ex = e2, !.e2c = Append(@, msg)]
Do(s, ev) ==
    LET o == s.o  ex == s.ex IN
    CASE ev.a = "c_new" ->
           LET c == NewReq(o) IN
           [s EXCEPT !.o = c, !.c2e = Append(@, [t |-> "new", id |-> c.clord, orig |-> "", qty |-> c.qty, px |-> c.px]), !.used = @ \cup {c.clord}]
      [] ev.a = "c_cancel" ->
           LET c == CancelReq(o) IN
           [s EXCEPT !.o = c, !.c2e = Append(@, [t |-> "cancel", id |-> c.clord, orig |-> c.orig, qty |-> c.qty, px |-> c.px]),
                     !.used = @ \cup {c.clord},
                     !.oerr = IF o.orig # "" THEN "cancel_req: orig_clord_id still set" ELSE IF c.clord \in s.used THEN "ClOrdID reused" ELSE @]
      [] ev.a = "c_replace" ->
           LET c == ReplaceReq(o) IN
           [s EXCEPT !.o = c, !.c2e = Append(@, [t |-> "replace", id |-> c.clord, orig |-> c.orig, qty |-> o.qty + ev.dq, px |-> o.px + ev.dp]),
                     !.used = @ \cup {c.clord},
                     !.oerr = IF o.orig # "" THEN "replace_req: orig_clord_id still set" ELSE IF c.clord \in s.used THEN "ClOrdID reused" ELSE @]
      [] ev.a = "c_recv" ->
           LET m == Head(s.e2c)
               s1 == [s EXCEPT !.e2c = Tail(@)] IN
           IF m.t = "er"
           THEN IF m.clord \notin {o.clord, o.orig} THEN [s1 EXCEPT !.oerr = "execution report refused: ClOrdID mismatch"]
                ELSE [s1 EXCEPT !.o = ProcER(o, m)]
           ELSE [s1 EXCEPT !.o = ProcCR(o, m)]
      [] ev.a = "e_recv" ->
           LET m == Head(s.c2e)
               s1 == [s EXCEPT !.c2e = Tail(@)] IN
           IF m.t = "new" THEN [s1 EXCEPT !.ex = [ex EXCEPT !.st = "recv", !.qty = m.qty, !.px = m.px, !.live = m.id]]
           ELSE IF Live(ex.st) /\ ex.pend.kind = "none" /\ m.orig = ex.live
                THEN [s1 EXCEPT !.ex = [ex EXCEPT !.pend = [kind |-> m.t, id |-> m.id, qty |-> m.qty, px |-> m.px]]]
                ELSE \* too late / unknown order: reject, reporting the current status (B.1.c, C.1.c)
                     [s1 EXCEPT !.e2c = Append(@, CR(ex, m.id, m.orig, IF ex.st \in Statuses THEN Reported(ex) ELSE REJECTED))]
      [] ev.a = "e_pending_new" -> LET e2 == [ex EXCEPT !.st = PENDNEW] IN EmitS(s, e2, ER(e2, ex.live, "", "A", PENDNEW))
      [] ev.a = "e_ack" -> LET e2 == [ex EXCEPT !.st = ORDNEW] IN EmitS(s, e2, ER(e2, ex.live, "", "0", ORDNEW))
      [] ev.a = "e_reject" -> LET e2 == [ex EXCEPT !.st = REJECTED] IN EmitS(s, e2, ER(e2, ex.live, "", "8", REJECTED))
      [] ev.a = "e_fill" ->
           LET e1 == [ex EXCEPT !.cum = @ + 1]
               e2 == [e1 EXCEPT !.st = StatusByFill(e1)]
           IN EmitS(s, e2, ER(e2, ex.live, "", "F", Reported(e2)))
      [] ev.a = "e_pending_request" -> EmitS(s, ex, ER(ex, ex.pend.id, ex.live, IF ex.pend.kind = "cancel" THEN "6" ELSE "E", Reported(ex)))
      [] ev.a = "e_cancelled" -> LET e2 == [ex EXCEPT !.st = CANCELED, !.pend = NoPend] IN EmitS(s, e2, ER(e2, ex.pend.id, ex.live, "4", CANCELED))
      [] ev.a = "e_replaced" ->
           LET e1 == [ex EXCEPT !.qty = ex.pend.qty, !.px = ex.pend.px, !.live = ex.pend.id, !.pend = NoPend]
               e2 == [e1 EXCEPT !.st = StatusByFill(e1)]
           IN EmitS(s, e2, ER(e2, ex.pend.id, ex.live, "5", e2.st))
      [] ev.a = "e_request_reject" -> LET e2 == [ex EXCEPT !.pend = NoPend] IN EmitS(s, e2, CR(e2, ex.pend.id, ex.live, e2.st))
      [] ev.a = "e_expire" -> LET e2 == [ex EXCEPT !.st = EXPIRED] IN EmitS(s, e2, ER(e2, ex.live, "", "C", EXPIRED))
      [] ev.a = "e_unsolicited_cancel" -> LET e2 == [ex EXCEPT !.st = CANCELED] IN EmitS(s, e2, ER(e2, ex.live, "", "4", CANCELED))
      [] ev.a = "e_suspend" -> LET e2 == [ex EXCEPT !.st = SUSPENDED] IN EmitS(s, e2, ER(e2, ex.live, "", "9", SUSPENDED))
      [] ev.a = "e_resume" -> LET e2 == [ex EXCEPT !.st = StatusByFill(ex)] IN EmitS(s, e2, ER(e2, ex.live, "", "D", e2.st))

Events == { [a |-> x, dq |-> 0, dp |-> 0] : x \in (ClientActs \ {"c_replace"}) \cup {"e_recv"} \cup ExchSteps }
          \cup { [a |-> "c_replace", dq |-> dq, dp |-> dp] : dq \in {-1, 0, 1}, dp \in {-1, 0, 1} }

(* ------------------------------- C17 clauses ------------------------------- *)
\* over a system state x (model) and the client object c under judgement (the model's own, or the real one's projection)
QuiescentS(x) == x.c2e = <<>> /\ x.e2c = <<>> /\ x.ex.pend.kind = "none" /\ x.ex.st # "recv"
O1c(c) == c.st \in Statuses
O2c(c) == (c.orig # "") => c.st \in {PENDCANCEL, PENDREPLACE} \/ c.st \in Finished     \* at most one outstanding request
O3live(x, c) == (QuiescentS(x) /\ CanRequest(c.st)) => c.clord = x.ex.live
O4c(x, c) == (QuiescentS(x) /\ x.ex.st \in Statuses) =>
                /\ c.st = x.ex.st /\ c.cum = x.ex.cum /\ c.qty = x.ex.qty /\ c.px = x.ex.px /\ c.leaves = LeavesOf(x.ex)
O5c(x, c) == (QuiescentS(x) /\ x.ex.st \in Finished) => c.st \in Finished /\ ~CanRequest(c.st)

=============================================================================
