------------------------------ MODULE KillEval ------------------------------
(* Property C09, kill points INSIDE a handler: a single endpoint over a file journal is killed at
   a chosen boundary (before/after every journal commit, before/after every transport write,
   after every drain) while it processes one event; a new connection object is then built over
   the reopened journal and the session continues.  Record:
     pre        live counters before the event               [nin, nout]
     bounds     live counters at every boundary reached       sequence of [nin, nout, nw]
     completed  the event ran to completion (no kill: boundary index beyond the last one)
     raised     the completed call raised an exception to its caller (a send that could not be
                encoded has completed nothing; the number it drew is burnt in memory only)
     post       live counters after the event (if completed)
     restored   counters of the new object                    [nin, nout]
     wire       every NEW frame handed to the transport by both incarnations: [seq, sha, inc]
   T1c  the restored counters equal the live counters at some boundary between the last completed
        and the in-flight operation (or before / after it)
   T1_after_continuation  after the new incarnation has logged on and sent, a third object over the journal would
        again restore exactly its live counters (the journal left behind by the kill is not poisoned)
   T2   a MsgSeqNum is never used for two different new messages across the incarnations *)
EXTENDS Integers, Sequences, FiniteSets, TLC, Json, IOUtils
Traces == JsonDeserialize(IOEnv.TRACE_FILE)
Fc(n, ok) == IF ok THEN <<>> ELSE <<n>>
Pair(x) == <<x.nin, x.nout>>
\* burnt = numbers drawn in memory by sends that raised before the event (never journaled, never sent): a restart forgets
\* them, and the next journaled send re-synchronises the stored counter - so both readings are accepted
Plus(x, b) == <<x.nin + b.nin, x.nout + b.nout>>
Verdict(r) ==
    LET allowed == {Pair(r.pre)} \cup { Pair(r.bounds[i]) : i \in DOMAIN r.bounds } \cup (IF r.completed THEN {Pair(r.post)} ELSE {})
    IN [id |-> r.id,
        fails |-> Fc("T1c_restored_counters", r.burnt.nin >= 0 /\ r.burnt.nout >= 0
                                               /\ (Pair(r.restored) \in allowed \/ Plus(r.restored, r.burnt) \in allowed))
               \o Fc("T1_completed_restored", (r.completed /\ ~r.raised) => (Pair(r.restored) = Pair(r.post) \/ Plus(r.restored, r.burnt) = Pair(r.post)))
               \o Fc("T2_no_number_reuse", \A i, j \in DOMAIN r.wire : r.wire[i].seq = r.wire[j].seq => r.wire[i].sha = r.wire[j].sha)
               \o Fc("T1_after_continuation", Pair(r.restored2) = Pair(r.live2))
               \o Fc("K_continuation_error", r.cont_error = "")]
ASSUME JsonSerialize(IOEnv.OUT_FILE, [i \in DOMAIN Traces |-> Verdict(Traces[i])])
=============================================================================
