----------------------------- MODULE LexicalEval -----------------------------
(* C19 on the real SchemaField.validate_value: record = [id, type, s, soh, enums, res] with
   res = "true" | "exc:<Class>".  For enumerated fields (enums # <<>>) the lexical space is
   exactly the enumerators. *)
EXTENDS Lexical, Json, IOUtils
Traces == JsonDeserialize(IOEnv.TRACE_FILE)
Fc(n, ok) == IF ok THEN <<>> ELSE <<n>>
Exp(r) == IF r.enums # <<>> THEN (IF \E i \in DOMAIN r.enums : r.enums[i] = r.s THEN "yes" ELSE "no")
          ELSE IF r.special = "endseqno" /\ r.s = "0" THEN "yes"
          ELSE InLex(r.type, r.s, r.soh)
\* "optional minus sign": for the numeric types that allow one, prefixing a minus to an unsigned string must not
\* change the outcome (record kind "pair": res = outcome for s, resneg = outcome for "-" \o s)
PairVerdict(r) ==
    [id |-> r.id, exp |-> "pair",
     fails |-> Fc("V_sign_independent", (r.res = "true") = (r.resneg = "true"))
            \o Fc("V_error_class", (r.res # "true" => r.res = "exc:FIXMessageError") /\ (r.resneg # "true" => r.resneg = "exc:FIXMessageError"))]
Verdict(r) ==
    IF "resneg" \in DOMAIN r THEN PairVerdict(r) ELSE
    LET e == Exp(r) IN
    [id |-> r.id, exp |-> e,
     fails |-> Fc("V_accepts_member", e = "yes" => r.res = "true") \o Fc("V_rejects_non_member", e = "no" => r.res # "true")
            \o Fc("V_error_class", r.res # "true" => r.res = "exc:FIXMessageError")]
ASSUME JsonSerialize(IOEnv.OUT_FILE, [i \in DOMAIN Traces |-> Verdict(Traces[i])])
=============================================================================
