------------------------------ MODULE Heartbeat ------------------------------
(***************************************************************************)
(* The heartbeat watchdog in discrete virtual time.  Time unit = 1/S s     *)
(* (S = 4).  The timer task wakes every second at times = Phase (mod S);   *)
(* inbound frames arrive at any quarter.  The endpoint is a logged-on      *)
(* acceptor; the peer script is arbitrary: silence, valid traffic, answers *)
(* with the right / a wrong / no TestReqID, TestRequests, out-of-sequence  *)
(* frames.  The C12 clauses (HeartbeatProps) are checked on every step.    *)
(***************************************************************************)
EXTENDS Session1, HeartbeatProps, Json

CONSTANTS H, Phase, MaxArr, Horizon, Dump
S == 4
T0 == 4000000          \* = virtual epoch 1 000 000 s
VARIABLES ep, now, mh, hist, narr, arrived
vars == <<ep, now, mh, hist, narr, arrived>>

Obs(e) == [cs |-> e.cs, role |-> e.role, nin |-> e.nin, nout |-> e.nout, maxr |-> e.maxr, treq |-> e.treq]
OutOf(e) == [wrote |-> e.wrote, deliv |-> e.deliv, cb |-> e.cb, exc |-> e.exc]

\* logged-on acceptor whose Logon arrived at T0
Ep0 == LET a == Attach(Clr(NewEndpoint(1, 1)), "KEEP")
       IN Handle(a, [t |-> "frame", now |-> T0,
                     f |-> [Frame("LOGON", 1) EXCEPT !.seq = 1] @@ [hdr |-> "ok"]], {})

HF(kind, rel, trid) == [RF(kind, rel, FALSE) EXCEPT !.trid = trid]
PeerFrames == { HF("HB", 0, ""), HF("HB", 0, "match"), HF("HB", 0, "wrong"), HF("HB", 0, "wronghi"), HF("HB", 0, "wrongtxt"), HF("TR", 0, "T1"),
                HF("HB", 1, "match"), HF("APP", 0, "") }

Init == /\ ep = Ep0 /\ now = T0 /\ hist = <<>> /\ narr = 0 /\ arrived = FALSE
        /\ mh = NextMH(MH0, Obs(Ep0), [t |-> "init"], OutOf(Ep0), Obs(Ep0), T0, H, S)

Adv == /\ now < T0 + Horizon
       /\ LET ev == [t |-> "adv", now |-> now + 1, wake |-> ((now + 1) % S = Phase), H |-> H, S |-> S]
              e2 == Handle(ep, ev, {})
          IN /\ ep' = e2 /\ now' = now + 1 /\ arrived' = FALSE
             /\ mh' = NextMH(mh, Obs(ep), ev, OutOf(e2), Obs(e2), now + 1, H, S)
             /\ hist' = Append(hist, [t |-> "adv"])
       /\ UNCHANGED narr
Arrive == /\ ~arrived /\ narr < MaxArr /\ ~Disconnected(ep.cs)
          /\ \E r \in PeerFrames :
               LET ev == [t |-> "frame", f |-> ResolveFrame(ep, r), now |-> now]
                   e2 == Handle(ep, ev, {})
               IN /\ ep' = e2 /\ arrived' = TRUE /\ narr' = narr + 1
                  /\ mh' = NextMH(mh, Obs(ep), ev, OutOf(e2), Obs(e2), now, H, S)
                  /\ hist' = Append(hist, FrameEv(r))
          /\ UNCHANGED now
\* the application tries to put a TestRequest of its own on the wire through send_msg
AppTR == /\ ~arrived /\ narr < MaxArr
         /\ LET r == [RS("TR", "") EXCEPT !.trid = "9"]
                ev == [t |-> "send", m |-> ResolveSend(ep, r), up |-> TRUE]
                e2 == Handle(ep, ev, {})
            IN /\ ep' = e2 /\ arrived' = TRUE /\ narr' = narr + 1
               /\ mh' = NextMH(mh, Obs(ep), ev, OutOf(e2), Obs(e2), now, H, S)
               /\ hist' = Append(hist, SendEv(r))
         /\ UNCHANGED now
Next == Adv \/ Arrive \/ AppTR
Spec == Init /\ [][Next]_vars

LastAbs == IF hist'[Len(hist')].t = "adv"
           THEN [t |-> "adv", now |-> now', wake |-> (now' % S = Phase), H |-> H, S |-> S]
           ELSE IF hist'[Len(hist')].t = "send"
           THEN [t |-> "send", m |-> ResolveSend(ep, hist'[Len(hist')].m), up |-> TRUE]
           ELSE [t |-> "frame", f |-> ResolveFrame(ep, hist'[Len(hist')].f), now |-> now]
A_W1a == [][W1a(mh', Obs(ep'), now', H, S)]_vars
A_W1b == [][W1b(mh', Obs(ep'), now', H, S)]_vars
A_W1c == [][W1c(mh, LastAbs, OutOf(ep'), now', H, S)]_vars
A_W2 == [][W2(mh, Obs(ep), LastAbs, OutOf(ep'), Obs(ep'), now', H, S)]_vars
A_W3 == [][W3(Obs(ep), LastAbs, OutOf(ep'), Obs(ep'))]_vars
A_W4 == [][W4(mh, LastAbs, OutOf(ep'))]_vars
A_W5 == [][W5(mh, Obs(ep), LastAbs, OutOf(ep'), Obs(ep'))]_vars
\* sanity: the model does disconnect a silent peer and does send TestRequests (non-vacuity)
NeverDisconnects == ~Disconnected(ep.cs)
NeverProbes == ep.treq = 0

View == <<[ep EXCEPT !.wrote = <<>>, !.deliv = <<>>, !.cb = <<>>, !.exc = "none"], now, mh, narr, arrived>>
Inv_DumpState == Dump => PrintT(<<"STATE", ToJson(hist)>>)
=============================================================================
