#!/venv/bin/python
import sys, json, collections; sys.path.insert(0,'/verif')
from harness import netcheck, netrun, tlc, sessrun
from harness.core import Ctx, Outcome
from harness.par import pmap
import random
prop=sys.argv[1] if len(sys.argv)>1 else "C07"
ctx=Ctx("DN","quick",0)
rng=random.Random(5)
jdir=netcheck.scratch(ctx,"dn") if prop=="C09" else None
specs=[{"id":"w%d"%i,"evs":netcheck.random_walk(rng,rng.randint(10,120),prop=="C09"),"jdir":jdir} for i in range(400)]
recs=pmap(netrun.run_trace,specs)
verd=tlc.evaluate(ctx.sub("e"),"NetEval",recs,shard_size=30,jobs=16,cfg_text=sessrun.eval_cfg())
c=collections.Counter(); ex={}
for rec,v in zip(recs,verd):
    if rec.get("harness_error"): print("HARNESS",rec["id"],rec["harness_error"])
    for f in v["fails"][:1]:
        print("FAIL",rec["id"],f, json.dumps(rec["steps"][f["step"]-1]["ev"]))
    for d in v['drift'][:1]:
        st=rec['steps'][d['step']-1]; ev=st['ev']
        k=(ev['t'], (ev.get('f') or {}).get('kind',''), d['e'], st['pre'][d['e']]['cs'], tuple(d['fields']))
        c[k]+=1; ex.setdefault(k,(rec['id'],d['step'],st,d['e']))
for k,n in c.most_common(12):
    print(n,k); rid,step,st,e=ex[k]
    print('    ',rid,step,json.dumps(st['ev'])[:300]); print('     pre',{a:b for a,b in st['pre'][e].items() if a not in('jout','jin')},st['pre']['link']); print('     out',json.dumps(st['out'][e])[:500]); print('     post',{a:b for a,b in st['post'][e].items() if a not in ('jout','jin')})
import shutil; shutil.rmtree(ctx.work,ignore_errors=True)
if jdir: shutil.rmtree(jdir,ignore_errors=True)
