#!/venv/bin/python
import sys; sys.path.insert(0,'/verif')
from harness import tlc
depth=int(sys.argv[1]) if len(sys.argv)>1 else 10
ms,mb,mr=[int(x) for x in (sys.argv[2:5]+[1,1,0])[:3]] if len(sys.argv)>2 else (1,1,0)
lag=sys.argv[5] if len(sys.argv)>5 else "TRUE"
cfg=f"""SPECIFICATION Spec
CONSTANTS
 KF_BackwardReset = TRUE
 KF_StoredInLag = {lag}
 KF_WriteBeforeJournal = FALSE
 MaxSends = {ms}
 MaxBreaks = {mb}
 MaxRestarts = {mr}
 Depth = {depth}
 Dump = FALSE
VIEW View
CONSTRAINT Bound
INVARIANT Safe
INVARIANT Quiescence
INVARIANT T2
INVARIANT T4
PROPERTY T1
CHECK_DEADLOCK FALSE
"""
try:
    r=tlc.model_check('/verif/.work/tn','Net',cfg,timeout=900,expect_violation=True,heap="10g")
    print(r['generated'],r['distinct'],r['depth'],round(r['wall'],1),r['violated'])
    if r['violated']:
        o=r['out']; i=o.find('Error:'); print(o[i:i+80])
        import re
        for m in re.finditer(r"/\\ hist = (<<.*?>>)\n/\\", o, re.S): last=m.group(1)
        print(last)
        st=o.split('State ')
        print('State '+st[-1][:6000])
except Exception as e: print(str(e)[-6000:])
