#!/venv/bin/python
"""Regenerates MANIFEST.json from the table below (single source of truth)."""
import json, os, subprocess
V = os.path.dirname(os.path.dirname(os.path.abspath(__file__)))
props = [json.loads(l)["id"] for l in open(os.path.join(V, "properties.jsonl"))]

COMMON_NOTE = ("Trusted: TLC, the JSON bridge, the Python driver/projection (no oracle logic in Python: every "
               "clause is a TLA+ formula evaluated by TLC), SQLite atomic commit, CPython asyncio semantics under the virtual-time loop.")

CHECKS = {
 "C13": dict(
   engine="Journal",
   technique="TLA+ reference model (spec/Journal.tla) model-checked by TLC; every reachable model state x every operation replayed on the real Journaler and every recorded result compared by a TLA+ evaluator (refinement check), plus seeded random operation sequences",
   text="Bounded-exhaustive refinement: TLC enumerates every journal state of the bounded model and checks the C13 laws on it; a shortest operation path to every distinct state, followed by every mutating operation and a battery of queries, is executed on the real Journaler (memory and file) and TLC compares each returned value with the model's. Random sequences (sparse/large numbers, odd CompIDs, arbitrary bytes) extend beyond the bound.",
   design_ref="5/C13",
   note="Numbers < 2^31; message bytes compared by SHA-1 prefix; set_seq_num with non-positive values is outside the property. " + COMMON_NOTE),
 "C08": dict(
   engine="JournalTx",
   technique="TLA+ transactional journal model (spec/JournalTx.tla: durable vs connection view, statement lists, Crash/Close actions) model-checked by TLC; crash experiments on real files at every statement/commit boundary evaluated by a TLA+ evaluator against the functional model",
   text="TLC checks J1 (all-or-nothing), J3 (completed operations durable), J4 (close loses nothing) for every bounded operation history x every statement boundary of the model, and reproduces the loss when set_seq_num does not commit (vacuity self-check). Every operation sequence of the model graph plus seeded random histories is run on a real file-backed Journaler; at every boundary before/after each execute() and commit() of the last operation, right after it returned, and after a normal close, the on-disk state is reopened by a fresh Journaler and TLC decides whether it equals the model state before or after the operation. A sample is realised by real os._exit() in forked children.",
   design_ref="5/C08",
   note="SQLite rollback-journal atomicity trusted; crash = process death (not power loss); default realisation is an on-disk snapshot of db+journal at the boundary (fork per point does not scale in this VM), cross-checked by real forked crashes on a sample. " + COMMON_NOTE),
 "C04": dict(engine="Session1",
   technique="TLA+ session-layer model (spec/Endpoint.tla handlers as operators, spec/Session1.tla environment) model-checked by TLC against clauses D1-D4 (spec/SessionProps.tla); shortest event path to every model state x every alphabet event replayed on a real connection; every recorded step evaluated by TLC (spec/SessionEval.tla) for the clauses and for conformance with the model",
   text="Bounded-exhaustive: all inbound histories of the relative alphabet (8 frame kinds x number below/at/above x PossDup x GapFill/NewSeqNo x header defects; sends; EOF; reconnect) up to the depth bound from 5 preambles (fresh, active acceptor/initiator, with journal, awaiting resend) are checked on the model by TLC and replayed on the real connection, plus seeded random walks of up to 40 events with counters up to 2^31. TLC evaluates delivery gate, counter law, one-ResendRequest-per-gap (monitor-side history) and strictly increasing delivery on every implementation step.",
   design_ref="5/C04", note="Whole frames only (chunking is C03/C10); transport up; in-memory journal; virtual clock. " + COMMON_NOTE),
 "C05": dict(engine="Session1",
   technique="same TLA+ model and replay as C04; clauses N1-N5 (consecutive numbering, journal row with exact bytes hash, stored counter, refused sends consume nothing) evaluated by TLC on every implementation step",
   text="Every send class (application, Logon, Logout, Heartbeat, TestRequest, SequenceReset/PossDup with and without number) in every reachable connection state and role, interleaved with inbound traffic that causes sends, from starting counters 1, 5/9, 10^6 and 2^31-300: TLC checks the clauses on the model and evaluates them on the recorded wire bytes and journal of the real connection.",
   design_ref="5/C05", note="Frames compared with journal rows by SHA-1 prefix of the exact bytes; link up (a failed drain is only injected to create journal holes). " + COMMON_NOTE),
 "C06": dict(engine="Session1",
   technique="same TLA+ model; clauses R1-R6 on the reply to every ResendRequest; additionally every outbound journal up to a length bound x every (BeginSeqNo, EndSeqNo) x {ACTIVE, RESENDREQ_AWAITING}, each request issued twice, evaluated by TLC",
   text="Journals of length <= 2 (quick) / 4 (thorough) over {application, declined application, session message, hole} x all (b, e) in -1..last+2 (and e = 0) x both states: coverage chain R1, replay of accepted application rows R2, PossDup/OrigSendingTime/body R3, no session message retransmitted R4, no side effects on counters, journal outside the range and state R5, invalid requests answered by nothing that renumbers R6.",
   design_ref="5/C06", note="OrigSendingTime compared as text with the journaled SendingTime. " + COMMON_NOTE),
 "C11": dict(engine="Session1",
   technique="same TLA+ model; clauses G1-G5 (first message rule, send refusals, integrity defects, wrong BeginString, silence and single on_disconnect after disconnect) evaluated by TLC on model transitions and on every implementation step",
   text="Every connection state reachable in the bounded model x role x frame class x integrity defect (no 49, no 56, swapped, wrong 49, wrong 56, no 34, wrong BeginString, number below/at/above) x send attempts of every class, followed by further input after a disconnect.",
   design_ref="5/C11", note="Roles are reached through the bare AsyncFIXConnection as the repository's tests do; client/server connect paths are exercised in C07. " + COMMON_NOTE),
 "C07": dict(engine="Net",
   technique="TLA+ two-endpoint model (spec/Net.tla: two Endpoint records, FIFO channels, Break/NoticeEOF/Reconnect actions) model-checked by TLC for Safe + Quiescence; shortest event path to every model state replayed on two real endpoints (AsyncFIXClient/AsyncFIXDummyServer subclasses over a fake link) + seeded random walks; every step evaluated by TLC (spec/NetEval.tla) for the clauses and for conformance",
   text="Exhaustive with state hashing over sends, deliveries, breaks keeping any prefix of the in-flight frames, EOF/reset/OSError notices and reconnect+Logon up to the stated bound; each explored behaviour is executed on the real objects (real reader and heartbeat tasks under a virtual clock) and extended by a settle suffix, so the quiescence clause (both ACTIVE, counters cross-equal, every accepted message delivered exactly once in order) is evaluated on the real code after every schedule; random walks of up to 120 events add mid-frame breaks.",
   design_ref="5/C07", note="Link model: FIFO, loses a suffix of the in-flight frames at a break; writes after a break vanish and drain raises. A send that raised may or may not arrive later (the property speaks about accepted sends). " + COMMON_NOTE),
 "C09": dict(engine="Net",
   technique="same TLA+ two-endpoint model with Restart actions; clauses T1 (restored counters), T2 (no MsgSeqNum reused for a different message, over the whole wire history), T4 (no ResendRequest when nothing was lost) plus the C07 clauses after the restart; file-backed journals reopened by a fresh Journaler; TLC evaluates recorded steps; kill points inside a handler: one endpoint killed at every journal-commit / transport-write / drain boundary of every alphabet event, restarted from the file journal, TLC (spec/KillEval.tla) decides T1c (restored counters are the live counters at some boundary of the in-flight operation) and T2 over both incarnations",
   text="Graceful restarts of either endpoint at every quiescent point of the bounded model and in random walks (file journals, new connection object over the reopened file), followed by reconnect, Logon and settle; TLC self-check: with the stored-inbound-lag flag the model violates T1. Kill points inside a send / inside inbound processing: for (prefix x every event of the session alphabet) the real endpoint is killed at each boundary before/after every journal commit, before/after every transport write and after every drain (one killed-and-restarted run per boundary; statement-level crash points of the journal API itself are exhaustive in C08).",
   design_ref="5/C09", note="Restart = tasks cancelled, journal object dropped, new Journaler on the same file, new connection object. " + COMMON_NOTE),
 "C12": dict(engine="Heartbeat",
   technique="TLA+ model of the watchdog in discrete virtual time (spec/Heartbeat.tla, unit 1/4 s, wake-up phase as a constant) model-checked by TLC against clauses W1a-W5 (spec/HeartbeatProps.tla); every behaviour of the bounded model replayed on the real heartbeat_timer_task + reader under a virtual clock; recorded steps evaluated by TLC (spec/HeartbeatEval.tla)",
   text="All arrival patterns of up to 3-4 inbound frames (valid Heartbeat, right / wrong / missing TestReqID, TestRequest, out-of-sequence frames, application TestRequest attempts) at quarter-second granularity over a horizon of 4H+4 s for H in 1..3 and two wake-up phases are checked on the model and replayed on the real task; random patterns (silence, periodic below/at/above the interval, bursts, answers delayed 0..2 intervals) for H up to 30 s on the real code.",
   design_ref="5/C12", note="Tolerances: TestRequest in [H-1, H+1] s of silence, disconnect of a silent peer by 3H+3 s, a live peer = valid traffic with no silence >= H-1 s or every TestRequest answered in sequence within 2H-2 s (between the bounds both outcomes are accepted). An application that re-sends the registered TestReqID itself is not prevented (residual). " + COMMON_NOTE),
 "C14": dict(engine="SendConc",
   technique="TLA+ model of tasks interleaving at the library's suspension points (spec/SendConc.tla) checked exhaustively by TLC (deadlock freedom, S1-S5); all schedules of the REAL code over its gated suspension points enumerated by stateless DFS with a controlled scheduler; TLC (spec/SendConcEval.tla) evaluates S1-S5 on every execution and the real wires are compared with the model's reachable wires",
   text="2-3 application senders, the heartbeat task's TestRequest and the reader servicing a ResendRequest / TestRequest / gap / application message: every interleaving over drain (FIFO wake-up), should_replay, on_state_change, on_message, on_logon; for each execution the wire order, per-task results, journal rows (exact bytes hash) and the stored counter are judged by TLC.",
   design_ref="5/C14", note="Preemption only at awaits; the largest task set is capped (quick: 6000 executions) and reported as not exhaustive in the evidence. " + COMMON_NOTE),
 "C02": dict(engine="Wire",
   technique="independent byte-level FIX frame grammar in TLA+ (spec/Wire.tla: WellFormedFrame over Seq(0..255)) evaluated by TLC (spec/WireEval.tla) on every byte string handed to the transport in send cases with adversarial values and on every frame written during seeded session histories of the Session1 / Net drivers",
   text="The frames are produced by the real encoder and connection; TLC judges BeginString/BodyLength/MsgType order, three-digit CheckSum last, BodyLength = byte count, CheckSum = byte sum mod 256, tag=value shape of every field. A message that cannot be represented (characters above U+00FF) must raise and write nothing.",
   design_ref="5/C02", note="No state space is explored for this property (pure input/output relation); TLC is the oracle evaluator. Values with SOH or empty values are outside the property. " + COMMON_NOTE),
 "C03": dict(engine="Wire",
   technique="TLA+ model of the reader loop with a reference decoder contract over concrete bytes (spec/Reassembly.tla) checked by TLC for every partition into <= 3 reads; the real socket_read_task fed all 1-cut and 2-cut partitions, random multi-cut partitions and 1-byte reads of real frame streams with marker-free garbage; per-read observations judged by TLC (spec/WireEval.tla kind 'reads')",
   text="After every read the number of journaled inbound frames must equal the number of frames that have completely arrived, the delivered application numbers must be all of them in order and the buffer must hold nothing but a possible partial frame-start marker - for every chunking, hence independent of it.",
   design_ref="5/C03", note="Frames valid and in sequence; garbage without a complete marker. " + COMMON_NOTE),
 "C10": dict(engine="Wire",
   technique="independent byte-level grammar in TLA+ (spec/Wire.tla: ConsistencyDefects / FrameConsistent) evaluated by TLC on every outcome of repeated Codec.decode(silent=True) over arbitrary bytes, grammar-aware malformed frames and every single-byte substitution / deletion / insertion of a corpus of valid frames followed by valid traffic; the live reader is fed the same inputs",
   text="Totality (never raises), consumed length within the buffer, termination of repeated decoding, every returned message is a contiguous slice at the first marker with consistent BodyLength and three-digit CheckSum, and the live reader's buffer is drained behind a malformed frame.",
   design_ref="5/C10", note="Known finding KF-C10-lax-bodylength (test-pinned). Quick tier samples 12 replacement bytes per position, thorough all 255 for the main frame. " + COMMON_NOTE),
 "C01": dict(engine="GroupCodec",
   technique="TLA+ model of message tree <-> token list (spec/GroupCodec.tla: Flatten, the decoder's group-context algorithm as a step machine, WellFormedTree); TLC generates every well-formed tree over a small table with a reference grammar machine and checks Parse o Flatten = id (spec/GroupCodecMC.tla); trees over the LIVE repeating-group table pushed through the real Codec.encode/decode and judged by TLC (spec/GroupCodecEval.tla) including an independent byte tokeniser (spec/Wire.tla)",
   text="Every group of the working tree's 29-group table as outermost group with 1-3 items, item shapes (delimiter only, all members, delimiter + each optional member, every second member), nested groups to the depth the table allows, plain fields before/after, two groups side by side, standard/custom/SequenceReset types, allocate / raw / PossDup / SequenceReset numbering modes, adversarial values (framing look-alikes such as '8=FIX.', '10=000', '9=12', '=', latin-1). TLC decides well-formedness of each tree, whether the decoder algorithm inverts Flatten for the live table, and compares the real decode result, header, consumed length, raw bytes and the independently tokenised bytes.",
   design_ref="5/C01", note="Values are drawn from a pool (not exhaustive text); empty values and values with SOH are outside the property. " + COMMON_NOTE),
 "C16": dict(engine="OrderStatus",
   technique="the transition tables of change_status transcribed as a total function in TLA+ (spec/OrderStatus.tla) with laws L1-L5; TLC evaluates the laws on the table over the whole finite domain (spec/OrderStatusMC.tla) and on the results of the real change_status / can_cancel / can_replace / is_finished for every one of the 40 500 points (spec/OrderStatusEval.tla)",
   text="Exhaustive over 15 statuses x {8, 9, F, G, unsupported} x 17 ExecTypes + omitted x 15 reported statuses x both error modes; the laws (closed and only the library's error, finished statuses absorbing, never back to created / pending-new, created accepts only pending-new/rejected, request kinds permitted exactly for new / partially filled / suspended) decide; equality with the transcribed table is conformance.",
   design_ref="5/C16", note="Known finding KF-C16-pinned-cancel-reject-pending-new (two test-pinned rows). " + COMMON_NOTE),
 "C17": dict(engine="OrderLife",
   technique="TLA+ model of the client order object (transcribed method by method) against an exchange following the FIX 4.4 order state change matrices with two in-flight queues (spec/OrderLifeFn.tla step function, spec/OrderLife.tla state machine) model-checked by TLC for O1-O5; every maximal behaviour of a bounded instance and TLC -simulate behaviours replayed on a real FIXNewOrderSingle (all reports come from the TLA+ exchange); recorded attributes judged by TLC (spec/OrderLifeEval.tla)",
   text="All interleavings of new / cancel / replace (qty up, down, price) with pending-new, ack, reject, fills racing with pending requests, pending-cancel/replace reports, cancelled, replaced, request rejects, expire, unsolicited cancel, suspend/resume and with both queues, up to the bounds; at every quiescent point the real object's status, cum, leaves, qty, price must equal the exchange's, finished orders refuse requests, a permitted request builds, uses a fresh ClOrdID with the same root and refers to the live ClOrdID; the status is always an enum member.",
   design_ref="5/C17", note="Roots, quantity units (integer, fractional, large) and price units are varied per trace by seed. " + COMMON_NOTE),
 "C18": dict(engine="Container",
   technique="TLA+ reference model of FIXContainer/FIXMessage as an ordered tag map (spec/Container.tla: every public method as ApplyOp) explored by TLC (spec/ContainerMC.tla: order and duplicate laws); a shortest operation path to every model state x every mutating operation x a battery of accessors replayed on real FIXMessage objects; every result and the content after every operation compared by TLC (spec/ContainerEval.tla); seeded random sequences",
   text="set / replace / delete / get (with default) / contains with int, decimal string, tag enum and non-integer spellings; str, int, float and enum values; add_group at index -1, 0, mid, beyond; set_group; group lookups by list, index and member value; equality with containers and dicts (with framing tags); pickle round trip - compared step by step with the model, 'unspecified' outcomes skipped.",
   design_ref="5/C18", note="The list of unspecified cases is in the module header of spec/Container.tla and in the evidence assumptions. " + COMMON_NOTE),
 "C19": dict(engine="Lexical",
   technique="the lexical space of every FIX 4.4 datatype as a three-valued recogniser over strings in TLA+ (spec/Lexical.tla, self-tested by TLC in spec/LexicalMC.tla); TLC (spec/LexicalEval.tla) judges the outcome of the real SchemaField.validate_value on all strings up to length 3-4 over type-specific alphabets, boundary products of the fixed-layout types and all enumerators + near misses of both dictionaries",
   text="Per datatype of both dictionaries: exhaustive short strings over an alphabet of digits, sign, dot, underscore, space, exponent letter, non-ASCII digit (numeric types) or letters, space, '=', SOH (text types); year/month/day/hour/minute/second/fraction boundary products with layout defects for timestamps, dates, times, MonthYear; every enumerated field with its enumerators and case/prefix/suffix/neighbour near misses. Acceptance iff member, rejection only by FIXMessageError.",
   design_ref="5/C19", note="Unspecified decisions (nothing asserted) are listed in the header of spec/Lexical.tla. " + COMMON_NOTE),
 "C15": dict(engine="SchemaValid",
   technique="validity of a message tree w.r.t. a FIX XML dictionary as a three-valued TLA+ operator (spec/SchemaValid.tla + spec/Lexical.tla) over a dictionary constant produced by an independent XML translator (harness/fixdict.py); TLC (spec/SchemaValidEval.tla) computes the verdict of canonical instances and every single-fault mutant and compares with the real FIXSchema.validate built from the XML and from permutations of its <components>",
   text="Per message type of tests/FIX44.xml and tests/TT-FIX44.xml: required-only, partly and fully populated instances (groups with 1-2 items, nested to full depth) and mutants at every position and nesting depth: drop each required field/group, unknown tag, tag of another message, out-of-type / out-of-enum value, field as group and group as field, swapped group members, dropped delimiter, foreign member in an item; acceptance iff valid, rejection only by FIXMessageError, same outcome for every component order.",
   design_ref="5/C15", note="Quick tier: the session messages + a seeded sample of message types incl. some with required groups; thorough: all 93 + 40. Required member of an otherwise absent optional component: unspecified. " + COMMON_NOTE),
 "C20": dict(engine="Tester",
   technique="behaviours of the TLA+ OrderLife model replayed on a real order object with every exchange report fabricated by the real FIXTester from the model's report, plus an argument grid at every reachable order state; TLC (spec/Tester.tla, spec/TesterEval.tla, spec/SchemaValid.tla) judges validity against the independently translated FIX44 dictionary, quantities, ExecID freshness, OrderID stability and processing without error, and compares the helper's own assertions with their transcription; clean session scripts run against the helper's simulated acceptor and a real acceptor endpoint, compared by TLC",
   text="(a) every maximal behaviour of the bounded OrderLife instance and TLC -simulate behaviours give the reachable order states; at each the helper fabricates the report the model exchange would send and a seeded grid of (ExecType, OrdStatus, quantities, price, ClOrdID) combinations; cancel rejects and the msg_* session factories likewise. (b) all scripts of up to 3-4 atomic exchanges (application message either way, TestRequest, Heartbeat either way) after a Logon: initiator frames, deliveries, state and counters must be equal in both setups.",
   design_ref="5/C20", note="The helper is used without its optional schema so that validity is decided by the TLA+ oracle. " + COMMON_NOTE),
}

ENGINES = [
 dict(name="Tester", path="spec/Tester.tla spec/TesterEval.tla spec/OrderLife.tla spec/SchemaValid.tla harness/props/c20.py",
      serves_properties=["C20"], kind_free_text="TLA+ order/exchange model driving the real test helper; TLA+ validity oracle; helper acceptor vs real acceptor comparison"),
 dict(name="SchemaValid", path="spec/SchemaValid.tla spec/SchemaValidEval.tla spec/Lexical.tla harness/fixdict.py harness/props/c15.py",
      serves_properties=["C15"], kind_free_text="TLA+ validity oracle over an independently translated dictionary, evaluated by TLC against the real validator"),
 dict(name="Lexical", path="spec/Lexical.tla spec/LexicalMC.tla spec/LexicalEval.tla harness/props/c19.py",
      serves_properties=["C19"], kind_free_text="TLA+ recognisers of the FIX datatype lexical spaces evaluated by TLC against the real validator"),
 dict(name="Container", path="spec/Container.tla spec/ContainerMC.tla spec/ContainerEval.tla harness/props/c18.py",
      serves_properties=["C18"], kind_free_text="TLA+ reference model of the message container + TLC + refinement check on real objects"),
 dict(name="OrderLife", path="spec/OrderLifeFn.tla spec/OrderLife.tla spec/OrderLifeEval.tla harness/props/c17.py",
      serves_properties=["C17"], kind_free_text="TLA+ model of order object x FIX exchange x in-flight queues + TLC + replay on the real order object"),
 dict(name="OrderStatus", path="spec/OrderStatus.tla spec/OrderStatusMC.tla spec/OrderStatusEval.tla harness/props/c16.py",
      serves_properties=["C16"], kind_free_text="TLA+ transcription of the order status transition function + laws, evaluated exhaustively by TLC on the model and on the real function"),
 dict(name="GroupCodec", path="spec/GroupCodec.tla spec/GroupCodecMC.tla spec/GroupCodecEval.tla harness/props/c01.py",
      serves_properties=["C01"], kind_free_text="TLA+ model of the group-context decoding algorithm + TLC tree generation + real codec round trips judged by TLC"),
 dict(name="Wire", path="spec/Wire.tla spec/WireEval.tla spec/Reassembly.tla harness/wirecheck.py harness/props/c02.py harness/props/c03.py harness/props/c10.py",
      serves_properties=["C02", "C03", "C10"], kind_free_text="independent byte-level FIX grammar in TLA+ evaluated by TLC on real encoder/decoder/reader observations; TLA+ reader-loop model"),
 dict(name="SendConc", path="spec/SendConc.tla spec/SendConcProps.tla spec/SendConcEval.tla harness/conc.py harness/props/c14.py",
      serves_properties=["C14"], kind_free_text="TLA+ model of task interleavings + TLC + controlled-scheduler exploration of the real code"),
 dict(name="Heartbeat", path="spec/Heartbeat.tla spec/HeartbeatProps.tla spec/HeartbeatEval.tla harness/props/c12.py",
      serves_properties=["C12"], kind_free_text="TLA+ model of the heartbeat watchdog in discrete virtual time + TLC + replay on the real timer task"),
 dict(name="Net", path="spec/Net.tla spec/NetEval.tla spec/Endpoint.tla harness/netrun.py harness/netcheck.py",
      serves_properties=["C07", "C09"], kind_free_text="TLA+ model of two endpoints over a lossy link with restarts + TLC + replay on two real endpoints + TLC evaluation of recorded steps"),
 dict(name="Session1", path="spec/Endpoint.tla spec/Session1.tla spec/Session1MC.tla spec/SessionProps.tla spec/SessionEval.tla harness/net.py harness/session.py harness/sessrun.py",
      serves_properties=["C04", "C05", "C06", "C11"], kind_free_text="TLA+ model of one connection object (every handler of connection.py as an operator) + TLC exhaustive check of the property clauses + replay of every model state x event on the real connection + TLC evaluation of recorded steps"),
 dict(name="JournalTx", path="spec/JournalTx.tla spec/JournalCrashEval.tla harness/crash.py harness/props/c08.py",
      serves_properties=["C08"], kind_free_text="TLA+ model of the journal's SQLite transactions with crash points + TLC + crash experiments on real files"),
 dict(name="Journal", path="spec/Journal.tla spec/JournalMC.tla spec/JournalEval.tla harness/props/c13.py",
      serves_properties=["C13"], kind_free_text="TLA+ reference model of the SQLite journal + TLC + replay/trace evaluation"),
]

NOT_YET = "check not built yet (build in progress, see DESIGN.md section 8)"
NA = {}

m = {"version": 1, "setup_cmd": "./setup.sh",
 "hooks": {"guard": "ASYNCFIX_VERIF",
           "enable": "no source hooks in /repo: the harness observes the library from outside (subclassed callbacks, fake transport, sqlite3 module proxy); ./check exports ASYNCFIX_VERIF=1, which only switches the /verif-side recorders on",
           "baseline_off_cmd": "cd /repo && /venv/bin/python -m pytest -ra -q -p no:cacheprovider --timeout=900 --continue-on-collection-errors",
           "source_commits": [], "add_only": True},
 "engines": ENGINES, "checks": [], "notes": "All checks: ./check <id> --tier quick|thorough (cwd /verif). Exit 0 = held (KNOWN-FINDING lines are reports), 1 = VIOLATION, 2 = machinery failure. See DESIGN.md.",
 "not_applicable": []}
for p in props:
    if p in CHECKS:
        c = CHECKS[p]
        m["checks"].append({"property_id": p, "quick_cmd": "./check %s --tier quick" % p,
            "thorough_cmd": "./check %s --tier thorough" % p, "evidence_file": "evidence/%s.json" % p,
            "replay_cmd_template": "./check %s --replay {path}" % p, "engine": c["engine"],
            "level_claimed": {"category": "model_checking", "text": c["text"], "design_ref": c["design_ref"]},
            "level_note": c["note"], "technique": c["technique"]})
    else:
        m["not_applicable"].append({"property_id": p, "reason": NA.get(p, NOT_YET)})
json.dump(m, open(os.path.join(V, "MANIFEST.json"), "w"), indent=1)
print("MANIFEST: %d checks, %d not_applicable" % (len(m["checks"]), len(m["not_applicable"])))
