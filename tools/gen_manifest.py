#!/venv/bin/python
"""Regenerates MANIFEST.json from the table below (single source of truth)."""
import json, os, subprocess
V = os.path.dirname(os.path.dirname(os.path.abspath(__file__)))
props = [json.loads(l)["id"] for l in open(os.path.join(V, "properties.jsonl"))]

COMMON_NOTE = ("Trusted: TLC, the JSON bridge, the Python driver/projection (no oracle logic in Python: every "
               "clause is a TLA+ formula evaluated by TLC), SQLite atomic commit, CPython asyncio semantics under the virtual-time loop.")

CHECKS = {
 "C13": dict(
   engine="Journal",
   technique="TLA+ reference model (spec/Journal.tla) model-checked by TLC; every reachable model state x every operation replayed on the real Journaler and every recorded result compared by a TLA+ evaluator (refinement check), plus seeded random operation sequences",
   text="Bounded-exhaustive refinement: TLC enumerates every journal state of the bounded model and checks the C13 laws on it; a shortest operation path to every distinct state, followed by every mutating operation and a battery of queries, is executed on the real Journaler (memory and file) and TLC compares each returned value with the model's. Random sequences (sparse/large numbers, odd CompIDs, arbitrary bytes) extend beyond the bound.",
   design_ref="5/C13",
   note="Numbers < 2^31; message bytes compared by SHA-1 prefix; set_seq_num with non-positive values is outside the property. " + COMMON_NOTE),
 "C08": dict(
   engine="JournalTx",
   technique="TLA+ transactional journal model (spec/JournalTx.tla: durable vs connection view, statement lists, Crash/Close actions) model-checked by TLC; crash experiments on real files at every statement/commit boundary evaluated by a TLA+ evaluator against the functional model",
   text="TLC checks J1 (all-or-nothing), J3 (completed operations durable), J4 (close loses nothing) for every bounded operation history x every statement boundary of the model, and reproduces the loss when set_seq_num does not commit (vacuity self-check). Every operation sequence of the model graph plus seeded random histories is run on a real file-backed Journaler; at every boundary before/after each execute() and commit() of the last operation, right after it returned, and after a normal close, the on-disk state is reopened by a fresh Journaler and TLC decides whether it equals the model state before or after the operation. A sample is realised by real os._exit() in forked children.",
   design_ref="5/C08",
   note="SQLite rollback-journal atomicity trusted; crash = process death (not power loss); default realisation is an on-disk snapshot of db+journal at the boundary (fork per point does not scale in this VM), cross-checked by real forked crashes on a sample. " + COMMON_NOTE),
}

ENGINES = [
 dict(name="JournalTx", path="spec/JournalTx.tla spec/JournalCrashEval.tla harness/crash.py harness/props/c08.py",
      serves_properties=["C08"], kind_free_text="TLA+ model of the journal's SQLite transactions with crash points + TLC + crash experiments on real files"),
 dict(name="Journal", path="spec/Journal.tla spec/JournalMC.tla spec/JournalEval.tla harness/props/c13.py",
      serves_properties=["C13"], kind_free_text="TLA+ reference model of the SQLite journal + TLC + replay/trace evaluation"),
]

NOT_YET = "check not built yet (build in progress, see DESIGN.md section 8)"
NA = {}

m = {"version": 1, "setup_cmd": "./setup.sh",
 "hooks": {"guard": "ASYNCFIX_VERIF",
           "enable": "no source hooks in /repo: the harness observes the library from outside (subclassed callbacks, fake transport, sqlite3 module proxy); ./check exports ASYNCFIX_VERIF=1, which only switches the /verif-side recorders on",
           "baseline_off_cmd": "cd /repo && /venv/bin/python -m pytest -ra -q -p no:cacheprovider --timeout=900 --continue-on-collection-errors",
           "source_commits": [], "add_only": True},
 "engines": ENGINES, "checks": [], "notes": "All checks: ./check <id> --tier quick|thorough (cwd /verif). Exit 0 = held (KNOWN-FINDING lines are reports), 1 = VIOLATION, 2 = machinery failure. See DESIGN.md.",
 "not_applicable": []}
for p in props:
    if p in CHECKS:
        c = CHECKS[p]
        m["checks"].append({"property_id": p, "quick_cmd": "./check %s --tier quick" % p,
            "thorough_cmd": "./check %s --tier thorough" % p, "evidence_file": "evidence/%s.json" % p,
            "replay_cmd_template": "./check %s --replay {path}" % p, "engine": c["engine"],
            "level_claimed": {"category": "model_checking", "text": c["text"], "design_ref": c["design_ref"]},
            "level_note": c["note"], "technique": c["technique"]})
    else:
        m["not_applicable"].append({"property_id": p, "reason": NA.get(p, NOT_YET)})
json.dump(m, open(os.path.join(V, "MANIFEST.json"), "w"), indent=1)
print("MANIFEST: %d checks, %d not_applicable" % (len(m["checks"]), len(m["not_applicable"])))
