#!/bin/sh
# tools/sweep.sh "<seeds>" <tier> [ids...] : run checks for several seeds, one summary line each (used with `vp run`)
SEEDS="$1"; TIER="$2"; shift 2
IDS="$@"; [ -z "$IDS" ] && IDS="C01 C02 C03 C04 C05 C06 C07 C08 C09 C10 C11 C12 C13 C14 C15 C16 C17 C18 C19 C20"
[ -n "$VP_RUN_REPO" ] && export VERIF_REPO="$VP_RUN_REPO"
for s in $SEEDS; do for c in $IDS; do
  VERIF_SEED=$s timeout 7200 ./check $c --tier $TIER 2>&1 | grep "VIOLATION\|clause \|MACHINERY\|MODEL-DRIFT\|done rc\|Traceback\|Error" | cut -c1-400 | sed "s/^/seed=$s /"
done; done
echo SWEEP-DONE
