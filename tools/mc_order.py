#!/venv/bin/python
import sys,re; sys.path.insert(0,'/verif')
from harness import tlc
q,mr,me=[int(x) for x in sys.argv[1:4]]
invs=sys.argv[4:] or ["O1","O2","O3","O3l","O4","O5"]
cfg=f"""SPECIFICATION Spec
CONSTANTS
 Qty0 = {q}
 MaxReq = {mr}
 MaxEx = {me}
 Dump = FALSE
VIEW View
{chr(10).join("INVARIANT "+x for x in invs)}
CHECK_DEADLOCK FALSE
"""
try:
    r=tlc.model_check('/verif/.work/tol','OrderLife',cfg,timeout=900,expect_violation=True,heap="10g")
    print(r['generated'],r['distinct'],r['depth'],round(r['wall'],1),r['violated'])
    if r['violated']:
        o=r['out']
        ms=list(re.finditer(r"/\\ hist = (<<.*?>>)\n/\\", o, re.S))
        if ms: print(re.sub(r"\s+"," ",ms[-1].group(1))[:2000])
        st=o.split('State ')
        print('State '+st[-1][:1800])
except Exception as e: print(str(e)[-4000:])
