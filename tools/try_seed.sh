#!/bin/sh
# tools/try_seed.sh <patch.diff> <check id> [<check id> ...] : apply a seeded change to /repo, run the quick checks, undo.
P="$1"; shift
cd /repo || exit 2
git diff --quiet || { echo "/repo has uncommitted changes"; exit 2; }
git apply "$P" || { echo "patch does not apply"; exit 2; }
/venv/bin/python -m pytest -q -p no:cacheprovider 2>&1 | tail -1
for c in "$@"; do
  ( cd /verif && timeout 1500 ./check "$c" --tier quick 2>&1 | grep "VIOLATION\|done rc\|MACHINERY\|clause " | cut -c1-260 )
done
git -C /repo checkout -- .
git -C /repo status --short
