#!/bin/sh
# tools/screen_seed.sh <Cxx> [check ids...] : pre-screen a seeded change in its scratch worktree /tmp/wt/<Cxx>
# (the change is applied there) without touching /repo: VERIF_REPO selects the tree under test.
ID="$1"; shift; CH="$@"; [ -z "$CH" ] && CH="$ID"
WT=${WT_BASE:-/tmp/wt}/$ID
( cd $WT && git diff --stat -- asyncfix | tail -1; /venv/bin/python -m pytest -q -p no:cacheprovider 2>&1 | tail -1 )
for c in $CH; do
  ( cd /verif && VERIF_REPO=$WT timeout 3000 ./check "$c" --tier quick 2>&1 | grep "VIOLATION\|done rc\|MACHINERY\|clause \|KNOWN" | cut -c1-300 )
done
