#!/venv/bin/python
"""Summarise conformance drift between the real connection and spec/Session1.tla."""
import sys, json, collections; sys.path.insert(0,'/verif')
from harness import sessrun, session, tlc
from harness.core import Ctx, Outcome
from harness.par import pmap
ctx=Ctx("DR","quick",int(sys.argv[1]) if len(sys.argv)>1 else 0)
out=Outcome()
specs=sessrun.base_specs(ctx,out)
recs=pmap(session.run_trace,specs)
verd=sessrun.evaluate(ctx,recs)
c=collections.Counter(); ex={}
for rec,v in zip(recs,verd):
    for d in v['drift'][:1]:   # first drift of each trace only (later ones may be consequences)
        st=rec['steps'][d['step']-1]; ev=st['ev']
        k=(ev['t'], (ev.get('f') or ev.get('m') or {}).get('kind',''), st['pre']['cs'], tuple(d['fields']))
        c[k]+=1; ex.setdefault(k,(rec['id'],d['step'],st))
for k,n in c.most_common(25):
    print(n,k)
    rid,step,st=ex[k]
    print('    ',rid,step,json.dumps(st['ev'])[:300]); print('     pre',{a:b for a,b in st['pre'].items() if a not in('jout','jin')}); print('     out',json.dumps(st['out'])[:400]); print('     post',{a:b for a,b in st['post'].items() if a not in ('jout','jin')})
import shutil; shutil.rmtree(ctx.work,ignore_errors=True)
