#!/bin/sh
# tools/keep_seed.sh <Cxx> <name> "<caught by>" : verify the demo in the scratch worktree (fails with, passes without) and store the seed
ID="$1"; NAME="$2"; CAUGHT="$3"; WT=${WT_BASE:-/tmp/wt}/$ID
cd $WT || exit 2
PYTHONPATH=$WT timeout 180 /venv/bin/python _out/demo.py >/dev/null 2>&1; WITH=$?
git diff -- asyncfix > /tmp/keep_seed_$$.diff; git apply -R /tmp/keep_seed_$$.diff; PYTHONPATH=$WT timeout 180 /venv/bin/python _out/demo.py >/dev/null 2>&1; WITHOUT=$?; git apply /tmp/keep_seed_$$.diff; rm -f /tmp/keep_seed_$$.diff
echo "demo exit with change: $WITH, without: $WITHOUT"
[ "$WITH" != "0" ] && [ "$WITHOUT" = "0" ] || { echo "demo does not discriminate"; exit 1; }
D=/verif/seeded/$NAME; mkdir -p $D
git diff -- asyncfix > $D/patch.diff
cp _out/demo.py $D/demo.py; cp _out/notes.md $D/notes.md 2>/dev/null
/venv/bin/python - "$ID" "$NAME" "$CAUGHT" "$WITH" "$WITHOUT" <<'PY'
import json,sys
ID,NAME,CAUGHT,W,WO=sys.argv[1:6]
notes=open('/verif/seeded/%s/notes.md'%NAME).read() if True else ''
json.dump({"property":ID,"name":NAME,"breaks":ID,"needs_to_manifest":"see notes.md (written by the independent sub-agent that authored the change)",
 "ran":["git apply patch.diff in a scratch worktree; /venv/bin/python -m pytest -q -p no:cacheprovider -> 192 passed",
        "demo.py with the change -> exit %s; without -> exit %s"%(W,WO),
        "tools/try_seed.sh patch.diff %s (apply to /repo, run quick check, git checkout -- .)"%ID],
 "caught_by":CAUGHT},open('/verif/seeded/%s/meta.json'%NAME,'w'),indent=1)
PY
echo stored $D
