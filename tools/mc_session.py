#!/venv/bin/python
import sys; sys.path.insert(0,'/verif')
from harness import tlc
depth=int(sys.argv[1]) if len(sys.argv)>1 else 2
props="\n".join("PROPERTY A_"+x for x in "D1 D2 D3 D4 N1 N2 N3 N4 N5 G1 G2 G3 G4 G5 R".split())
cfg=f"""SPECIFICATION Spec
CONSTANTS
 KF_BackwardReset = TRUE
 KF_StoredInLag = FALSE
 KF_WriteBeforeJournal = FALSE
 Depth = {depth}
 MaxN = 14
 Dump = FALSE
 Declined = {{"11=b"}}
VIEW View
CONSTRAINT Bound
{props}
CHECK_DEADLOCK FALSE
"""
try:
    r=tlc.model_check('/verif/.work/t','Session1MC',cfg,timeout=600,expect_violation=True)
    print(r['generated'],r['distinct'],r['depth'],round(r['wall'],1),r['violated'])
    if r['violated']:
        o=r['out']; i=o.find('Error:'); print(o[i:i+60]); 
        import re
        # print last two states compactly
        st=o.split('State ')
        for s in st[-2:]: print('State '+s[:3500])
except Exception as e: print(str(e)[-6000:])
