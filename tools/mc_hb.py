#!/venv/bin/python
import sys; sys.path.insert(0,'/verif')
from harness import tlc
H=int(sys.argv[1]); ph=int(sys.argv[2]); ma=int(sys.argv[3]); extra=sys.argv[4:] 
props="\n".join("PROPERTY A_"+x for x in "W1a W1b W1c W2 W3 W4 W5".split())
cfg=f"""SPECIFICATION Spec
CONSTANTS
 KF_BackwardReset = TRUE
 KF_StoredInLag = FALSE
 KF_WriteBeforeJournal = FALSE
 H = {H}
 Phase = {ph}
 MaxArr = {ma}
 Horizon = {(4*H+4)*4}
 Dump = FALSE
VIEW View
{props}
{chr(10).join("INVARIANT "+x for x in extra)}
CHECK_DEADLOCK FALSE
"""
try:
    r=tlc.model_check('/verif/.work/th','Heartbeat',cfg,timeout=900,expect_violation=True,heap="10g")
    print(r['generated'],r['distinct'],r['depth'],round(r['wall'],1),r['violated'])
    if r['violated']:
        o=r['out']; i=o.find('Error:'); print(o[i:i+80])
        import re
        ms=list(re.finditer(r"/\\ hist = (<<.*?>>)\n/\\", o, re.S))
        if ms: print(re.sub(r"\s+"," ",ms[-1].group(1))[:3000])
        st=o.split('State ')
        print('State '+st[-1][:2500])
except Exception as e: print(str(e)[-5000:])
